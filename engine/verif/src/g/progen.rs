//! E1 generator: builds a well-typed `Prog` from a choice tape. Small tape values select the
//! simplest alternative, so proptest's shrinking of the tape simplifies the program; an exhausted
//! tape yields 0 everywhere, which terminates generation.

use crate::g::prog::*;
use serde::{Deserialize, Serialize};

#[derive(Clone, Debug, Serialize, Deserialize, PartialEq, Eq, Hash)]
pub struct Flags {
    pub structs: bool,
    pub enums: bool,
    pub options: bool,
    pub lambdas: bool,
    pub nested_lambdas: bool,
    pub loops: bool,
    /// allow constructs whose reference outcome may be a runtime error (/, %, index, pop, unwrap)
    pub errors: bool,
    pub void_data: bool,
    pub shadowing: bool,
    /// loop variables may reuse the name of an outer binding
    pub loop_var_shadowing: bool,
    pub try_op: bool,
    pub matches: bool,
    pub funcs: bool,
    /// allow break/continue inside a block that is (part of) an operand
    pub brk_in_operand: bool,
    /// 0 = none, 1 = lambda-heavy, 2 = option/?/!-heavy, 3 = shadowing-heavy
    #[serde(default)]
    pub bias: u8,
    /// statement budget of the main block
    pub size: u8,
    pub depth: u8,
}

impl Flags {
    pub fn core(size: u8, depth: u8) -> Flags {
        Flags {
            structs: true,
            enums: true,
            options: true,
            lambdas: true,
            nested_lambdas: true,
            loops: true,
            errors: true,
            void_data: true,
            shadowing: true,
            loop_var_shadowing: true,
            try_op: true,
            matches: true,
            funcs: true,
            brk_in_operand: false,
            bias: 0,
            size,
            depth,
        }
    }
}

pub struct Tape<'a> {
    pub data: &'a [u16],
    pub pos: usize,
}

impl<'a> Tape<'a> {
    /// 0..k-1, monotone in the tape value, 0 when exhausted
    pub fn n(&mut self, k: usize) -> usize {
        if k <= 1 {
            return 0;
        }
        let v = self.data.get(self.pos).copied().unwrap_or(0);
        self.pos += 1;
        ((v as usize) * k) >> 16
    }
    pub fn flip(&mut self, p_num: usize, p_den: usize) -> bool {
        // true with probability ~ p_num/p_den, false at tape value 0
        self.n(p_den) >= p_den - p_num
    }
    /// weighted choice; put the simplest alternative first
    pub fn choose(&mut self, weights: &[u32]) -> usize {
        let total: u32 = weights.iter().sum();
        if total == 0 {
            return 0;
        }
        let v = self.data.get(self.pos).copied().unwrap_or(0);
        self.pos += 1;
        let x = ((v as u64) * (total as u64) >> 16) as u32;
        let mut acc = 0;
        for (i, w) in weights.iter().enumerate() {
            acc += w;
            if x < acc {
                return i;
            }
        }
        weights.iter().rposition(|w| *w > 0).unwrap_or(0)
    }
    pub fn exhausted(&self) -> bool {
        self.pos >= self.data.len()
    }
}

#[derive(Clone, Debug)]
struct VarInfo {
    name: String,
    ty: T,
    mutable: bool,
    /// declared outside the current lambda (cannot be assigned; arrays may still be mutated)
    captured: bool,
}

struct FnCtx {
    ret: T,
    /// name of this function and its fuel parameter (for guarded recursion)
    rec: Option<(String, String)>,
    in_else_of_fuel_guard: bool,
}

pub struct G<'a> {
    t: Tape<'a>,
    fl: Flags,
    structs: Vec<StructDef>,
    enums: Vec<EnumDef>,
    funcs: Vec<FuncDef>,
    scopes: Vec<Vec<VarInfo>>,
    next: usize,
    fnctx: Option<FnCtx>,
    /// result types of the lambdas being generated (innermost last): `return` inside a lambda body
    lam_ret: Vec<T>,
    loop_depth: usize,
    lambda_depth: usize,
    /// > 0 while generating code that runs during iteration over an array variable
    no_len_mut: usize,
    cur_fn_mutates_len: bool,
    nodes: usize,
    labels: std::collections::BTreeSet<String>,
    cur_params: Vec<T>,
    operand_depth: usize,
    loop_base: usize,
}

const STRS: [&str; 8] = ["", "a", "b", "ab", "xyz", "hello", "é", "A b"];

impl<'a> G<'a> {
    fn label(&mut self, l: &str) {
        self.labels.insert(l.to_string());
    }

    fn fresh(&mut self, prefix: &str) -> String {
        self.next += 1;
        format!("{prefix}{}", self.next)
    }

    fn var_name(&mut self) -> String {
        // with shadowing enabled, sometimes reuse a visible variable's name
        if self.fl.shadowing && self.t.flip(1, if self.fl.bias == 3 { 2 } else { 6 }) {
            let names: Vec<String> = self.scopes.iter().flatten().map(|v| v.name.clone()).filter(|n| n != "fuel").collect();
            if !names.is_empty() {
                let i = self.t.n(names.len());
                self.label("shadowing");
                return names[i].clone();
            }
        }
        self.fresh("v")
    }

    fn visible(&self) -> Vec<VarInfo> {
        // innermost binding per name
        let mut seen = std::collections::HashSet::new();
        let mut out = vec![];
        for s in self.scopes.iter().rev() {
            for v in s.iter().rev() {
                if seen.insert(v.name.clone()) {
                    out.push(v.clone());
                }
            }
        }
        out.reverse();
        out
    }

    fn vars_of(&self, ty: &T) -> Vec<VarInfo> {
        self.visible().into_iter().filter(|v| &v.ty == ty).collect()
    }

    fn declare(&mut self, name: &str, ty: T, mutable: bool) {
        self.scopes.last_mut().unwrap().push(VarInfo { name: name.to_string(), ty, mutable, captured: false });
    }

    // ----- types --------------------------------------------------------------------------

    fn scalar_ty(&mut self) -> T {
        match self.t.choose(&[5, 3, 3]) {
            0 => T::Int,
            1 => T::Bool,
            _ => T::Str,
        }
    }

    fn data_ty(&mut self, depth: usize) -> T {
        let d = depth;
        let w = [
            6,
            3,
            3,
            if self.fl.void_data { 1 } else { 0 },
            if d > 0 { 3 } else { 0 },
            if d > 0 { 4 } else { 0 },
            if self.fl.structs && !self.structs.is_empty() { 4 } else { 0 },
            if self.fl.enums && !self.enums.is_empty() { 3 } else { 0 },
            if self.fl.options && d > 0 { 3 } else { 0 },
        ];
        match self.t.choose(&w) {
            0 => T::Int,
            1 => T::Bool,
            2 => T::Str,
            3 => T::Void,
            4 => {
                let n = 2 + self.t.n(2);
                T::Tup((0..n).map(|_| self.data_ty(d - 1)).collect())
            }
            5 => T::Arr(Box::new(self.data_ty(d - 1))),
            6 => T::St(self.t.n(self.structs.len())),
            7 => T::En(self.t.n(self.enums.len())),
            _ => T::Opt(Box::new(self.data_ty(d - 1))),
        }
    }

    fn printable(&self, t: &T) -> bool {
        match t {
            T::Int | T::Bool | T::Str | T::Void => true,
            T::Tup(ts) => ts.len() <= 4 && ts.iter().all(|t| self.printable(t)),
            T::Arr(t) | T::Opt(t) => self.printable(t),
            _ => false,
        }
    }

    fn eqable(&self, t: &T) -> bool {
        match t {
            T::Int | T::Bool | T::Str | T::Void => true,
            T::Tup(ts) => ts.len() <= 4 && ts.iter().all(|t| self.eqable(t)),
            T::Arr(t) => self.eqable(t),
            _ => false,
        }
    }

    // ----- literals -----------------------------------------------------------------------

    fn small_int(&mut self) -> i64 {
        let pool: [i64; 12] = [0, 1, 2, 3, -1, 5, 7, 10, -3, 100, 4611686018427387904, i64::MAX];
        let limit = if self.fl.errors { pool.len() } else { 10 };
        pool[self.t.n(limit)]
    }

    fn literal(&mut self, ty: &T, depth: usize) -> E {
        self.nodes += 1;
        match ty {
            T::Int => E::Int(self.small_int()),
            T::Bool => E::Bool(self.t.n(2) == 1),
            T::Str => E::Str(STRS[self.t.n(STRS.len())].to_string()),
            T::Void => E::Nil,
            T::Tup(ts) => E::Tup(ts.iter().map(|t| self.literal(t, depth)).collect()),
            T::Arr(t) => {
                // never empty here: an empty literal needs an annotation (see stmt_let)
                let n = 1 + self.t.n(3);
                E::ArrLit((0..n).map(|_| self.literal(t, depth)).collect())
            }
            T::St(s) => {
                let tys: Vec<T> = self.structs[*s].fields.iter().map(|f| f.1.clone()).collect();
                E::StNew(*s, tys.iter().map(|t| self.literal(t, depth)).collect())
            }
            T::En(e) => {
                let v = self.t.n(self.enums[*e].variants.len());
                let tys = self.enums[*e].variants[v].1.clone();
                E::EnNew(*e, v, tys.iter().map(|t| self.literal(t, depth)).collect())
            }
            T::Opt(t) => {
                if self.t.n(3) == 0 {
                    E::None((**t).clone())
                } else {
                    E::Some(Box::new(self.literal(t, depth)))
                }
            }
            T::Fun(args, ret) => {
                let ps: Vec<(String, T)> = args.iter().map(|t| (self.fresh("p"), t.clone())).collect();
                let body = self.literal(ret, depth);
                E::Lam(ps, Box::new(body))
            }
        }
    }

    // ----- expressions --------------------------------------------------------------------

    fn index_expr(&mut self) -> E {
        // mostly in range for short arrays, sometimes out of range / negative when errors are allowed
        let ints = self.vars_of(&T::Int);
        if !ints.is_empty() && self.t.flip(1, 4) {
            let i = self.t.n(ints.len());
            return E::Var(ints[i].name.clone());
        }
        let pool: [i64; 6] = [0, 1, 2, 0, 5, -1];
        let lim = if self.fl.errors { 6 } else { 1 };
        E::Int(pool[self.t.n(lim)])
    }

    pub fn expr(&mut self, ty: &T, d: usize) -> E {
        self.operand_depth += 1;
        let e = self.expr_inner(ty, d);
        self.operand_depth -= 1;
        e
    }

    fn expr_inner(&mut self, ty: &T, d: usize) -> E {
        self.nodes += 1;
        if d == 0 || self.nodes > 400 {
            let vs = self.vars_of(ty);
            if !vs.is_empty() && self.t.n(3) != 0 {
                let i = self.t.n(vs.len());
                return E::Var(vs[i].name.clone());
            }
            return self.literal(ty, 0);
        }
        let vs = self.vars_of(ty);
        let fun_rets: Vec<usize> = self.funcs.iter().enumerate().filter(|(_, f)| &f.ret == ty && !(self.no_len_mut > 0 && f.mutates_len)).map(|(i, _)| i).collect();
        let arr_ty = T::Arr(Box::new(ty.clone()));
        let arrs = self.vars_of(&arr_ty);
        let opt_ty = T::Opt(Box::new(ty.clone()));
        let opts = self.vars_of(&opt_ty);
        let struct_fields: Vec<(String, String)> = self
            .visible()
            .iter()
            .filter_map(|v| if let T::St(s) = &v.ty { Some((v.name.clone(), *s)) } else { None })
            .flat_map(|(n, s)| self.structs[s].fields.iter().filter(|f| &f.1 == ty).map(move |f| (n.clone(), f.0.clone())).collect::<Vec<_>>())
            .collect();
        let lambdas: Vec<VarInfo> = self.visible().into_iter().filter(|v| matches!(&v.ty, T::Fun(_, r) if &**r == ty)).collect();
        let can_rec = match &self.fnctx {
            Some(c) => c.rec.is_some() && c.in_else_of_fuel_guard && &c.ret == ty && self.lambda_depth == 0,
            None => false,
        };
        // weights: [literal, var, typed-op, if, block, call, index, field, unwrap, match, lambda-call, rec-call, pop, try]
        let typed_op = match ty {
            T::Int | T::Bool | T::Str => 8,
            T::Fun(..) if self.fl.lambdas && self.lambda_depth < if self.fl.nested_lambdas { 2 } else { 1 } => 6,
            T::Tup(_) | T::Arr(_) | T::St(_) | T::En(_) | T::Opt(_) => 3,
            _ => 0,
        };
        let try_ok = self.fl.try_op && self.lambda_depth == 0 && matches!(&self.fnctx, Some(c) if matches!(c.ret, T::Opt(_))) && !opts.is_empty();
        let w = [
            2,
            if vs.is_empty() { 0 } else { 6 },
            typed_op,
            3,
            2,
            if fun_rets.is_empty() { 0 } else { 5 },
            if arrs.is_empty() || (!self.fl.errors) { 0 } else { 5 },
            if struct_fields.is_empty() { 0 } else { 8 },
            if opts.is_empty() || !self.fl.errors { 0 } else { 4 },
            if self.fl.matches { 3 } else { 0 },
            if lambdas.is_empty() { 0 } else { 5 },
            if can_rec { 4 } else { 0 },
            if arrs.is_empty() || !self.fl.errors || self.no_len_mut > 0 || self.lambda_depth > 0 { 0 } else { 1 },
            if try_ok { 8 } else { 0 },
        ];
        let mut w = w;
        if self.fl.bias == 1 {
            w[10] *= 5;
            if matches!(ty, T::Fun(..)) {
                w[2] *= 3;
            }
        }
        if self.fl.bias == 2 {
            w[8] *= 4;
            w[13] *= 4;
            w[5] *= 2;
        }
        match self.t.choose(&w) {
            0 => self.literal(ty, d),
            1 => {
                let i = self.t.n(vs.len());
                E::Var(vs[i].name.clone())
            }
            2 => self.typed_op(ty, d),
            3 => {
                self.label("if-expr");
                let c = self.expr(&T::Bool, d - 1);
                let t = self.block(Some(ty), d - 1, 1);
                let f = self.block(Some(ty), d - 1, 1);
                E::If(Box::new(c), t, f)
            }
            4 => {
                self.label("block-expr");
                E::Blk(self.block(Some(ty), d - 1, 2))
            }
            5 => {
                let fi = fun_rets[self.t.n(fun_rets.len())];
                self.call(fi, d)
            }
            6 => {
                self.label("index");
                let a = arrs[self.t.n(arrs.len())].name.clone();
                let i = self.index_expr();
                E::Index(Box::new(E::Var(a)), Box::new(i))
            }
            7 => {
                self.label("field");
                let (v, f) = struct_fields[self.t.n(struct_fields.len())].clone();
                E::Field(Box::new(E::Var(v)), f)
            }
            8 => {
                self.label("unwrap");
                let o = opts[self.t.n(opts.len())].name.clone();
                E::Unwrap(Box::new(E::Var(o)))
            }
            9 => self.match_expr(ty, d),
            10 => {
                self.label("lambda-call");
                let l = lambdas[self.t.n(lambdas.len())].clone();
                let T::Fun(args, _) = &l.ty else { unreachable!() };
                let a: Vec<E> = args.iter().map(|t| self.expr(t, d - 1)).collect();
                E::CallV(l.name, a)
            }
            11 => {
                self.label("recursion");
                let (fname, fuel) = self.fnctx.as_ref().unwrap().rec.clone().unwrap();
                let params: Vec<T> = self.cur_params.clone();
                let mut a = vec![E::Bin(Op::Sub, Box::new(E::Var(fuel)), Box::new(E::Int(1)))];
                for t in params.iter().skip(1) {
                    a.push(self.expr(t, d - 1));
                }
                E::Call(fname, a)
            }
            12 => {
                self.label("pop-expr");
                self.cur_fn_mutates_len = true;
                let a = arrs[self.t.n(arrs.len())].name.clone();
                E::Pop(Box::new(E::Var(a)))
            }
            _ => {
                self.label("try");
                let o = opts[self.t.n(opts.len())].name.clone();
                E::Try(Box::new(E::Var(o)))
            }
        }
    }

    fn call(&mut self, fi: usize, d: usize) -> E {
        self.label("call");
        let f = self.funcs[fi].clone();
        if f.mutates_len {
            self.cur_fn_mutates_len = true;
        }
        let mut args = vec![];
        for (i, (_, t)) in f.params.iter().enumerate() {
            if i == 0 && f.name.starts_with("rec") {
                args.push(E::Int(self.t.n(4) as i64));
            } else {
                args.push(self.expr(t, d.saturating_sub(1)));
            }
        }
        E::Call(f.name, args)
    }

    fn typed_op(&mut self, ty: &T, d: usize) -> E {
        match ty {
            T::Int => {
                let arrs: Vec<VarInfo> = self.visible().into_iter().filter(|v| matches!(v.ty, T::Arr(_))).collect();
                let w = [6, 4, 3, if self.fl.errors { 2 } else { 0 }, if self.fl.errors { 2 } else { 0 }, 1, if arrs.is_empty() { 0 } else { 3 }];
                match self.t.choose(&w) {
                    k @ 0..=4 => {
                        let op = [Op::Add, Op::Sub, Op::Mul, Op::Div, Op::Mod][k];
                        let a = self.expr(&T::Int, d - 1);
                        let b = self.expr(&T::Int, d - 1);
                        E::Bin(op, Box::new(a), Box::new(b))
                    }
                    5 => E::Neg(Box::new(self.expr(&T::Int, d - 1))),
                    _ => {
                        let a = arrs[self.t.n(arrs.len())].name.clone();
                        E::Len(Box::new(E::Var(a)))
                    }
                }
            }
            T::Bool => {
                let w = [5, 3, 3, 3, 2];
                match self.t.choose(&w) {
                    0 => {
                        let op = [Op::Lt, Op::Le, Op::Gt, Op::Ge][self.t.n(4)];
                        let t = if self.t.n(4) == 3 { T::Str } else { T::Int };
                        let a = self.expr(&t, d - 1);
                        let b = self.expr(&t, d - 1);
                        E::Bin(op, Box::new(a), Box::new(b))
                    }
                    1 => {
                        let op = if self.t.n(2) == 0 { Op::Eq } else { Op::Ne };
                        let mut t = self.data_ty(1);
                        if !self.eqable(&t) {
                            t = T::Int;
                        }
                        let a = self.expr(&t, d - 1);
                        let b = self.expr(&t, d - 1);
                        E::Bin(op, Box::new(a), Box::new(b))
                    }
                    2 => {
                        self.label("and");
                        let a = self.expr(&T::Bool, d - 1);
                        let b = self.expr(&T::Bool, d - 1);
                        E::Bin(Op::And, Box::new(a), Box::new(b))
                    }
                    3 => {
                        self.label("or");
                        let a = self.expr(&T::Bool, d - 1);
                        let b = self.expr(&T::Bool, d - 1);
                        E::Bin(Op::Or, Box::new(a), Box::new(b))
                    }
                    _ => E::Not(Box::new(self.expr(&T::Bool, d - 1))),
                }
            }
            T::Str => {
                self.label("concat");
                let lt = match self.t.choose(&[4, 2, 1]) {
                    0 => T::Str,
                    1 => T::Int,
                    _ => T::Bool,
                };
                let rt = match self.t.choose(&[4, 2, 1]) {
                    0 => T::Str,
                    1 => T::Int,
                    _ => T::Bool,
                };
                let a = self.expr(&lt, d - 1);
                let b = self.expr(&rt, d - 1);
                E::Bin(Op::Cat, Box::new(a), Box::new(b))
            }
            T::Tup(ts) => E::Tup(ts.clone().iter().map(|t| self.expr(t, d - 1)).collect()),
            T::Arr(t) => {
                let n = 1 + self.t.n(3);
                E::ArrLit((0..n).map(|_| self.expr(t, d - 1)).collect())
            }
            T::St(s) => {
                let tys: Vec<T> = self.structs[*s].fields.iter().map(|f| f.1.clone()).collect();
                E::StNew(*s, tys.iter().map(|t| self.expr(t, d - 1)).collect())
            }
            T::En(e) => {
                let v = self.t.n(self.enums[*e].variants.len());
                let tys = self.enums[*e].variants[v].1.clone();
                E::EnNew(*e, v, tys.iter().map(|t| self.expr(t, d - 1)).collect())
            }
            T::Opt(t) => {
                if self.t.n(4) == 0 {
                    E::None((**t).clone())
                } else {
                    E::Some(Box::new(self.expr(t, d - 1)))
                }
            }
            T::Fun(args, ret) => self.lambda(&args.clone(), &ret.clone(), d),
            T::Void => E::Nil,
        }
    }

    fn lambda(&mut self, args: &[T], ret: &T, d: usize) -> E {
        self.label("lambda");
        if self.lambda_depth >= 1 {
            self.label("nested-lambda");
        }
        let ps: Vec<(String, T)> = args.iter().map(|t| (self.fresh("p"), t.clone())).collect();
        // everything visible becomes a captured (read-only) binding inside the lambda
        let saved = std::mem::take(&mut self.scopes);
        let mut cap: Vec<VarInfo> = vec![];
        {
            let mut seen = std::collections::HashSet::new();
            for s in saved.iter().rev() {
                for v in s.iter().rev() {
                    if seen.insert(v.name.clone()) {
                        cap.push(VarInfo { captured: true, mutable: false, ..v.clone() });
                    }
                }
            }
            cap.reverse();
        }
        if !cap.is_empty() {
            self.label("lambda-captures");
        }
        self.scopes = vec![cap, ps.iter().map(|(n, t)| VarInfo { name: n.clone(), ty: t.clone(), mutable: false, captured: false }).collect()];
        let saved_loop = std::mem::replace(&mut self.loop_depth, 0);
        self.lambda_depth += 1;
        self.lam_ret.push(ret.clone());
        let body = if self.t.flip(1, 3) { E::Blk(self.block(Some(ret), d.saturating_sub(1), 2)) } else { self.expr(ret, d.saturating_sub(1)) };
        self.lam_ret.pop();
        self.lambda_depth -= 1;
        self.loop_depth = saved_loop;
        self.scopes = saved;
        E::Lam(ps, Box::new(body))
    }

    fn irrefutable_pat(&mut self, ty: &T, binds: &mut Vec<(String, T)>, depth: usize) -> P {
        match ty {
            T::Tup(ts) if depth > 0 && self.t.n(3) != 0 => P::Tup(ts.clone().iter().map(|t| self.irrefutable_pat(t, binds, depth - 1)).collect()),
            T::St(s) if depth > 0 && self.t.n(3) != 0 => {
                let tys: Vec<T> = self.structs[*s].fields.iter().map(|f| f.1.clone()).collect();
                P::St(*s, tys.iter().map(|t| self.irrefutable_pat(t, binds, depth - 1)).collect())
            }
            _ => {
                if self.t.n(4) == 0 {
                    P::Wild
                } else {
                    // with shadowing enabled a binder sometimes takes the name of a visible variable
                    // (it then hides that variable inside its arm / for the rest of the block only)
                    let mut n = self.fresh("m");
                    if self.fl.shadowing && self.t.flip(1, if self.fl.bias == 3 { 2 } else { 8 }) {
                        let names: Vec<String> = self.scopes.iter().flatten().map(|v| v.name.clone()).filter(|x| x != "fuel" && !binds.iter().any(|b| &b.0 == x)).collect();
                        if !names.is_empty() {
                            n = names[self.t.n(names.len())].clone();
                            self.label("binder-shadows");
                        }
                    }
                    binds.push((n.clone(), ty.clone()));
                    P::Bind(n)
                }
            }
        }
    }

    fn match_expr(&mut self, ty: &T, d: usize) -> E {
        self.label("match");
        // scrutinee: prefer a visible variable of a matchable type, else an int expression
        let cands: Vec<VarInfo> = self.visible().into_iter().filter(|v| matches!(v.ty, T::Int | T::Bool | T::Str | T::Tup(_) | T::En(_) | T::Opt(_) | T::St(_))).collect();
        let (scrut, sty) = if !cands.is_empty() && self.t.n(4) != 0 {
            let v = cands[self.t.n(cands.len())].clone();
            (E::Var(v.name), v.ty)
        } else {
            (self.expr(&T::Int, d - 1), T::Int)
        };
        let mut arms: Vec<(P, E)> = vec![];
        let arm_body = |g: &mut G, binds: Vec<(String, T)>, ty: &T, d: usize| -> E {
            g.scopes.push(binds.into_iter().map(|(n, t)| VarInfo { name: n, ty: t, mutable: false, captured: false }).collect());
            let e = if g.t.flip(1, 5) { E::Blk(g.block(Some(ty), d.saturating_sub(1), 1)) } else { g.expr(ty, d.saturating_sub(1)) };
            g.scopes.pop();
            e
        };
        match &sty {
            T::Int => {
                let k = self.t.n(3);
                let lits = [0i64, 1, 2, -1, 7];
                for i in 0..k {
                    arms.push((P::Int(lits[i]), arm_body(self, vec![], ty, d)));
                }
                let mut b = vec![];
                let p = self.irrefutable_pat(&T::Int, &mut b, 0);
                arms.push((p, arm_body(self, b, ty, d)));
            }
            T::Bool => {
                if self.t.n(2) == 0 {
                    let first = self.t.n(2) == 1;
                    arms.push((P::Bool(first), arm_body(self, vec![], ty, d)));
                    arms.push((P::Bool(!first), arm_body(self, vec![], ty, d)));
                } else {
                    arms.push((P::Bool(true), arm_body(self, vec![], ty, d)));
                    arms.push((P::Wild, arm_body(self, vec![], ty, d)));
                }
            }
            T::Str => {
                let k = self.t.n(3);
                for i in 0..k {
                    arms.push((P::Str(STRS[i].to_string()), arm_body(self, vec![], ty, d)));
                }
                let mut b = vec![];
                let p = self.irrefutable_pat(&T::Str, &mut b, 0);
                arms.push((p, arm_body(self, b, ty, d)));
            }
            T::Tup(ts) => {
                self.label("match-tuple");
                // refutable arms: distinct literal in the first literal-capable component
                let pos = ts.iter().position(|t| matches!(t, T::Int | T::Bool | T::Str));
                if let Some(pos) = pos {
                    let k = self.t.n(3);
                    for i in 0..k {
                        // (true, ..) and (false, ..) together would make the final arm redundant
                        if matches!(ts[pos], T::Bool) && i >= 1 {
                            break;
                        }
                        let mut b = vec![];
                        let mut ps = vec![];
                        for (j, t) in ts.iter().enumerate() {
                            if j == pos {
                                ps.push(match t {
                                    T::Int => P::Int(i as i64),
                                    T::Bool => P::Bool(i == 0),
                                    _ => P::Str(STRS[i].to_string()),
                                });
                            } else {
                                ps.push(self.irrefutable_pat(&t.clone(), &mut b, 1));
                            }
                        }
                        arms.push((P::Tup(ps), arm_body(self, b, ty, d)));
                    }
                }
                let mut b = vec![];
                let p = self.irrefutable_pat(&sty, &mut b, 2);
                arms.push((p, arm_body(self, b, ty, d)));
            }
            T::St(_) => {
                let mut b = vec![];
                let p = self.irrefutable_pat(&sty, &mut b, 2);
                arms.push((p, arm_body(self, b, ty, d)));
            }
            T::En(e) => {
                self.label("match-enum");
                let nv = self.enums[*e].variants.len();
                let start = self.t.n(nv);
                let use_wild = self.t.n(4) == 0 && nv > 1;
                let listed = if use_wild { 1 + self.t.n(nv - 1) } else { nv };
                for k in 0..listed {
                    let v = (start + k) % nv;
                    let tys = self.enums[*e].variants[v].1.clone();
                    // optional refutable arm on a literal first payload
                    if let Some(T::Int) = tys.first() {
                        if self.t.n(3) == 0 {
                            let mut b = vec![];
                            let mut ps = vec![P::Int(0)];
                            for t in tys.iter().skip(1) {
                                ps.push(self.irrefutable_pat(t, &mut b, 1));
                            }
                            arms.push((P::Variant(*e, v, ps), arm_body(self, b, ty, d)));
                        }
                    }
                    let mut b = vec![];
                    let ps: Vec<P> = tys.iter().map(|t| self.irrefutable_pat(t, &mut b, 1)).collect();
                    arms.push((P::Variant(*e, v, ps), arm_body(self, b, ty, d)));
                }
                if use_wild {
                    arms.push((P::Wild, arm_body(self, vec![], ty, d)));
                }
            }
            T::Opt(inner) => {
                self.label("match-option");
                let some_first = self.t.n(2) == 0;
                let mut b = vec![];
                let sp = P::Some(Box::new(self.irrefutable_pat(&inner.clone(), &mut b, 1)));
                let some_arm = (sp, arm_body(self, b, ty, d));
                let none_arm = (P::None, arm_body(self, vec![], ty, d));
                if some_first {
                    arms.push(some_arm);
                    arms.push(none_arm);
                } else {
                    arms.push(none_arm);
                    arms.push(some_arm);
                }
            }
            _ => unreachable!(),
        }
        E::Match(Box::new(scrut), arms)
    }

    // ----- statements ---------------------------------------------------------------------

    pub fn block(&mut self, ret: Option<&T>, d: usize, max_stmts: usize) -> Block {
        self.scopes.push(vec![]);
        let n = self.t.n(max_stmts + 1);
        let mut stmts = vec![];
        for _ in 0..n {
            if self.nodes > 600 {
                break;
            }
            stmts.push(self.stmt(d));
        }
        let tail = ret.map(|t| Box::new(self.expr(t, d)));
        self.scopes.pop();
        Block { stmts, tail }
    }

    fn stmt_let(&mut self, d: usize) -> S {
        let lam_den = if self.fl.bias == 1 { 3 } else { 8 };
        let ty = if self.fl.lambdas && self.t.flip(1, lam_den) && self.lambda_depth < 2 {
            let n = 1 + self.t.n(2);
            let args: Vec<T> = (0..n).map(|_| self.scalar_ty()).collect();
            let r = self.scalar_ty();
            T::Fun(args, Box::new(r))
        } else if self.fl.bias == 2 && self.t.flip(1, 3) {
            T::Opt(Box::new(self.scalar_ty()))
        } else {
            self.data_ty(2)
        };
        let mutable = self.t.n(3) == 2 || (self.fl.bias == 1 && self.t.flip(1, 2));
        // empty array literal: only here, always annotated
        let (e, force_annot) = if matches!(ty, T::Arr(_)) && self.t.flip(1, 6) {
            self.label("empty-array");
            (E::ArrLit(vec![]), true)
        } else if matches!(ty, T::Opt(_)) {
            (self.expr(&ty, d), true)
        } else {
            (self.expr(&ty, d), false)
        };
        let name = self.var_name();
        let annotate = force_annot || self.t.flip(1, 4);
        self.declare(&name, ty.clone(), mutable);
        S::Let { mutable, name, ty, annotate, e }
    }

    fn assignable(&self) -> Vec<(LV, T)> {
        let mut out = vec![];
        for v in self.visible() {
            if v.mutable && !v.captured && !matches!(v.ty, T::Fun(..)) {
                out.push((LV::Var(v.name.clone()), v.ty.clone()));
            }
            if let (T::St(s), false) = (&v.ty, v.mutable) {
                for (f, t) in &self.structs[*s].fields {
                    if !matches!(t, T::Void) {
                        out.push((LV::Field(v.name.clone(), f.clone()), t.clone()));
                    }
                }
            }
        }
        out
    }

    pub fn stmt(&mut self, d: usize) -> S {
        if self.fl.bias != 0 && self.lambda_depth == 0 && self.operand_depth == 0 && self.t.flip(2, 5) {
            self.nodes += 8;
            return if self.fl.bias == 1 { self.scenario_lambda(d) } else { self.scenario_try(d) };
        }
        self.stmt_plain(d)
    }

    fn vinfo(name: &str, ty: T, mutable: bool) -> VarInfo {
        VarInfo { name: name.to_string(), ty, mutable, captured: false }
    }

    /// C19 shapes: capture-at-creation observable through later reassignment, nested lambdas
    /// whose free variables are used only by the inner lambda, lambdas created in loops,
    /// per-invocation locals, lambdas returned from functions.
    fn scenario_lambda(&mut self, d: usize) -> S {
        self.label("scenario-lambda");
        let mut st: Vec<S> = vec![];
        self.scopes.push(vec![]);
        let add = |a: E, b: E| E::Bin(Op::Add, Box::new(a), Box::new(b));
        let makers: Vec<String> = self.funcs.iter().filter(|f| f.name.starts_with("mk")).map(|f| f.name.clone()).collect();
        let kind = self.t.choose(&[3, 3, 3, 2, if makers.is_empty() { 0 } else { 3 }]);
        match kind {
            0 => {
                // stale capture of a scalar var
                self.label("capture-then-reassign");
                let ty = self.scalar_ty();
                let x = self.fresh("c");
                let init = self.literal(&ty, 0);
                st.push(S::Let { mutable: true, name: x.clone(), ty: ty.clone(), annotate: false, e: init });
                self.declare(&x, ty.clone(), true);
                let pty = self.scalar_ty();
                let f = self.fresh("f");
                let lam = self.lambda_using(&[pty.clone()], &ty, Some(&x), d);
                st.push(S::Let { mutable: false, name: f.clone(), ty: T::Fun(vec![pty.clone()], Box::new(ty.clone())), annotate: self.t.flip(1, 3), e: lam });
                self.declare(&f, T::Fun(vec![pty.clone()], Box::new(ty.clone())), false);
                let a0 = self.expr(&pty, 1);
                st.push(S::Print(E::CallV(f.clone(), vec![a0])));
                let newv = match &ty {
                    T::Int => add(E::Var(x.clone()), E::Int(1 + self.t.n(5) as i64)),
                    T::Bool => E::Not(Box::new(E::Var(x.clone()))),
                    _ => E::Bin(Op::Cat, Box::new(E::Var(x.clone())), Box::new(E::Str("!".into()))),
                };
                st.push(S::Assign(LV::Var(x.clone()), newv));
                let a1 = self.expr(&pty, 1);
                st.push(S::Print(E::CallV(f.clone(), vec![a1])));
                st.push(S::Print(E::Var(x)));
            }
            1 => {
                // nested lambdas: k is used only by the innermost one
                self.label("nested-inner-only-capture");
                let k = self.fresh("k");
                st.push(S::Let { mutable: true, name: k.clone(), ty: T::Int, annotate: false, e: E::Int(self.t.n(9) as i64) });
                self.declare(&k, T::Int, true);
                let (a, b, c) = (self.fresh("p"), self.fresh("p"), self.fresh("p"));
                let (inner, mid, outer) = (self.fresh("in"), self.fresh("mid"), self.fresh("out"));
                let three = self.fl.nested_lambdas && self.t.flip(1, 2);
                let innermost_body = if three { add(add(E::Var(a.clone()), E::Var(b.clone())), add(E::Var(c.clone()), E::Var(k.clone()))) } else { add(add(E::Var(a.clone()), E::Var(b.clone())), E::Var(k.clone())) };
                let fun1 = T::Fun(vec![T::Int], Box::new(T::Int));
                let outer_lam = if three {
                    let inner_lam = E::Lam(vec![(c.clone(), T::Int)], Box::new(innermost_body));
                    let mid_body = Block { stmts: vec![S::Let { mutable: false, name: inner.clone(), ty: fun1.clone(), annotate: false, e: inner_lam }], tail: Some(Box::new(add(E::CallV(inner.clone(), vec![E::Var(b.clone())]), E::Int(1)))) };
                    let mid_lam = E::Lam(vec![(b.clone(), T::Int)], Box::new(E::Blk(mid_body)));
                    let outer_body = Block { stmts: vec![S::Let { mutable: false, name: mid.clone(), ty: fun1.clone(), annotate: false, e: mid_lam }], tail: Some(Box::new(add(E::CallV(mid.clone(), vec![E::Var(a.clone())]), E::Int(2)))) };
                    E::Lam(vec![(a.clone(), T::Int)], Box::new(E::Blk(outer_body)))
                } else {
                    let inner_lam = E::Lam(vec![(b.clone(), T::Int)], Box::new(innermost_body));
                    let outer_body = Block { stmts: vec![S::Let { mutable: false, name: inner.clone(), ty: fun1.clone(), annotate: false, e: inner_lam }], tail: Some(Box::new(add(E::CallV(inner.clone(), vec![E::Var(a.clone())]), E::Int(1)))) };
                    E::Lam(vec![(a.clone(), T::Int)], Box::new(E::Blk(outer_body)))
                };
                st.push(S::Let { mutable: false, name: outer.clone(), ty: fun1.clone(), annotate: false, e: outer_lam });
                self.declare(&outer, fun1, false);
                st.push(S::Print(E::CallV(outer.clone(), vec![E::Int(self.t.n(5) as i64)])));
                st.push(S::OpAssign(LV::Var(k.clone()), Op::Add, E::Int(100)));
                st.push(S::Print(E::CallV(outer, vec![E::Int(self.t.n(5) as i64)])));
                st.push(S::Print(E::Var(k)));
            }
            2 => {
                // lambdas created in a loop capture the loop variable / a counter at that iteration
                self.label("loop-captures");
                let fs = self.fresh("fs");
                let fun1 = T::Fun(vec![T::Int], Box::new(T::Int));
                st.push(S::Let { mutable: false, name: fs.clone(), ty: T::Arr(Box::new(fun1.clone())), annotate: true, e: E::ArrLit(vec![]) });
                let i = self.fresh("i");
                let j = self.fresh("j");
                let n = self.fresh("p");
                let cnt = 1 + self.t.n(4) as i64;
                st.push(S::Let { mutable: true, name: j.clone(), ty: T::Int, annotate: false, e: E::Int(0) });
                let lam = E::Lam(vec![(n.clone(), T::Int)], Box::new(add(E::Bin(Op::Mul, Box::new(E::Var(n.clone())), Box::new(E::Int(10))), add(E::Var(i.clone()), E::Var(j.clone())))));
                let body = Block { stmts: vec![S::OpAssign(LV::Var(j.clone()), Op::Add, E::Int(7)), S::Push(E::Var(fs.clone()), lam)], tail: None };
                st.push(S::ForInt { var: i, n: E::Int(cnt), body });
                let g = self.fresh("g");
                st.push(S::ForArr { pat: P::Bind(g.clone()), arr: E::Var(fs.clone()), body: Block { stmts: vec![S::Print(E::CallV(g, vec![E::Int(1)]))], tail: None } });
                st.push(S::Print(E::Var(j)));
            }
            3 => {
                // every invocation has its own locals
                self.label("per-call-locals");
                let c = self.fresh("f");
                let (n, t) = (self.fresh("p"), self.fresh("t"));
                let fun1 = T::Fun(vec![T::Int], Box::new(T::Int));
                let body = Block { stmts: vec![S::Let { mutable: true, name: t.clone(), ty: T::Int, annotate: false, e: E::Var(n.clone()) }, S::OpAssign(LV::Var(t.clone()), Op::Add, E::Int(1))], tail: Some(Box::new(E::Bin(Op::Mul, Box::new(E::Var(t)), Box::new(E::Int(2))))) };
                st.push(S::Let { mutable: false, name: c.clone(), ty: fun1.clone(), annotate: false, e: E::Lam(vec![(n, T::Int)], Box::new(E::Blk(body))) });
                st.push(S::Print(E::CallV(c.clone(), vec![E::Int(self.t.n(5) as i64)])));
                st.push(S::Print(E::CallV(c.clone(), vec![E::CallV(c.clone(), vec![E::Int(2)])])));
                self.declare(&c, fun1, false);
            }
            _ => {
                // lambda returned from a function keeps the arguments of that call
                self.label("returned-lambda");
                let mk = makers[self.t.n(makers.len())].clone();
                let fun1 = T::Fun(vec![T::Int], Box::new(T::Int));
                let (f1, f2) = (self.fresh("f"), self.fresh("f"));
                st.push(S::Let { mutable: false, name: f1.clone(), ty: fun1.clone(), annotate: false, e: E::Call(mk.clone(), vec![E::Int(self.t.n(9) as i64)]) });
                st.push(S::Let { mutable: false, name: f2.clone(), ty: fun1.clone(), annotate: false, e: E::Call(mk, vec![E::Int(100)]) });
                st.push(S::Print(add(E::CallV(f1.clone(), vec![E::Int(1)]), E::CallV(f2.clone(), vec![E::Int(1)]))));
                self.declare(&f1, fun1.clone(), false);
                self.declare(&f2, fun1, false);
            }
        }
        // keep the scenario's lambdas visible for later statements of this block
        let decls = self.scopes.pop().unwrap();
        let keep: Vec<VarInfo> = decls;
        // the scenario is emitted as `if true { ... }`; its bindings are local to that block
        let _ = keep;
        S::If(E::Bool(true), Block { stmts: st, tail: None }, None)
    }

    /// like `lambda`, but the body is forced to read `must_use` (so the capture matters)
    fn lambda_using(&mut self, args: &[T], ret: &T, must_use: Option<&str>, d: usize) -> E {
        let lam = self.lambda(args, ret, d);
        let (Some(name), E::Lam(ps, body)) = (must_use, lam.clone()) else { return lam };
        let combined = match ret {
            T::Int => E::Bin(Op::Add, Box::new(E::Var(name.to_string())), body),
            T::Bool => E::Bin(Op::Eq, Box::new(E::Var(name.to_string())), body),
            T::Str => E::Bin(Op::Cat, Box::new(E::Var(name.to_string())), body),
            _ => *body,
        };
        E::Lam(ps, Box::new(combined))
    }

    /// C23 shapes: `?` in operand / argument / index / condition / scrutinee positions with
    /// printed traces around it, and `!` on both outcomes.
    fn scenario_try(&mut self, _d: usize) -> S {
        self.label("scenario-try");
        let tryfns: Vec<FuncDef> = self.funcs.iter().filter(|f| f.name.starts_with("tryfn")).cloned().collect();
        if tryfns.is_empty() {
            return S::Print(E::Int(23));
        }
        let f = tryfns[self.t.n(tryfns.len())].clone();
        let mut args = vec![];
        for (_, pt) in &f.params {
            args.push(match pt {
                T::Void => E::Nil,
                T::Opt(inner) if **inner == T::Void => {
                    if self.t.n(3) == 0 { E::None(T::Void) } else { E::Some(Box::new(E::Nil)) }
                }
                _ => {
                    if self.t.n(3) == 0 { E::None(T::Int) } else { E::Some(Box::new(E::Int(self.t.n(3) as i64))) }
                }
            });
        }
        let call = E::Call(f.name.clone(), args);
        match self.t.n(3) {
            0 => {
                let v = self.fresh("m");
                S::Print(E::Match(Box::new(call), vec![(P::Some(Box::new(P::Bind(v.clone()))), E::Var(v)), (P::None, E::Int(-1))]))
            }
            1 => {
                self.label("unwrap-call");
                S::Print(E::Unwrap(Box::new(call)))
            }
            _ => S::Print(call),
        }
    }

    fn gen_try_funcs(&mut self) {
        // fn tr(n) prints n and returns it: makes evaluation order and early exit observable
        self.funcs.push(FuncDef {
            name: "tr".into(),
            params: vec![("n".into(), T::Int)],
            ret: T::Int,
            body: Block { stmts: vec![S::Print(E::Var("n".into()))], tail: Some(Box::new(E::Var("n".into()))) },
            mutates_len: false,
        });
        let nf = 1 + self.t.n(3);
        for i in 0..nf {
            let np = 1 + self.t.n(3);
            let mut params: Vec<(String, T)> = (0..np).map(|j| (format!("o{j}"), T::Opt(Box::new(T::Int)))).collect();
            // void corners: an option<void> that is tried for its effect only, and a parameter of type void
            // (it occupies no slot, which the early return of `?` must account for)
            let void_opt = self.fl.void_data && self.t.n(2) == 0;
            if void_opt {
                params.push(("u0".into(), T::Opt(Box::new(T::Void))));
            }
            if self.fl.void_data && self.t.n(3) == 0 {
                let at = self.t.n(params.len() + 1);
                params.insert(at, ("z0".into(), T::Void));
                self.label("try-fn-void-param");
            }
            let mut trace = 0i64;
            let mut tr = |g: &mut G| {
                trace += 1;
                let _ = g;
                E::Call("tr".into(), vec![E::Int(trace)])
            };
            let tryp = |g: &mut G| E::Try(Box::new(E::Var(format!("o{}", g.t.n(np)))));
            let add = |a: E, b: E| E::Bin(Op::Add, Box::new(a), Box::new(b));
            let mut stmts = vec![S::Print(E::Str(format!("enter{i}")))];
            let mut acc = self.fresh("x");
            stmts.push(S::Let { mutable: false, name: acc.clone(), ty: T::Int, annotate: false, e: E::Int(0) });
            let k = 1 + self.t.n(4);
            for _ in 0..k {
                let nx = self.fresh("x");
                let shape = if void_opt && self.t.n(3) == 0 { 7 } else { self.t.n(7) };
                let e = match shape {
                    // `u?` on an option<void> inside a block in operand position: nothing may stay on the stack
                    7 => {
                        self.label("try-void-payload");
                        add(tr(self), E::Blk(Block { stmts: vec![S::Expr(E::Try(Box::new(E::Var("u0".into()))))], tail: Some(Box::new(E::Int(3))) }))
                    }
                    // left / right operand with pending evaluated operands
                    0 => add(add(tr(self), tryp(self)), tr(self)),
                    1 => add(tr(self), add(tr(self), tryp(self))),
                    // argument position
                    2 => E::Call("tr".into(), vec![add(tryp(self), E::Int(1))]),
                    // index position
                    3 => E::Index(Box::new(E::ArrLit(vec![E::Int(10), E::Int(20), E::Int(30), E::Int(40)])), Box::new(tryp(self))),
                    // condition
                    4 => E::If(Box::new(E::Bin(Op::Gt, Box::new(tryp(self)), Box::new(E::Int(0)))), Block { stmts: vec![], tail: Some(Box::new(tr(self))) }, Block { stmts: vec![], tail: Some(Box::new(E::Int(0))) }),
                    // match scrutinee
                    5 => E::Match(Box::new(tryp(self)), vec![(P::Int(0), tr(self)), (P::Wild, E::Int(2))]),
                    // nested call
                    _ => E::Call("tr".into(), vec![E::Call("tr".into(), vec![tryp(self)])]),
                };
                stmts.push(S::Let { mutable: false, name: nx.clone(), ty: T::Int, annotate: false, e: add(E::Var(acc.clone()), e) });
                acc = nx;
            }
            stmts.push(S::Print(E::Str(format!("exit{i}"))));
            let body = Block { stmts, tail: Some(Box::new(E::Some(Box::new(E::Var(acc))))) };
            self.funcs.push(FuncDef { name: format!("tryfn{i}"), params, ret: T::Opt(Box::new(T::Int)), body, mutates_len: false });
        }
    }

    fn gen_maker_funcs(&mut self) {
        let n = 1 + self.t.n(2);
        for i in 0..n {
            let body = Block {
                stmts: vec![S::Let { mutable: false, name: "base".into(), ty: T::Int, annotate: false, e: E::Bin(Op::Mul, Box::new(E::Var("k".into())), Box::new(E::Int(2 + i as i64))) }],
                tail: Some(Box::new(E::Lam(vec![("n".into(), T::Int)], Box::new(E::Bin(Op::Add, Box::new(E::Bin(Op::Add, Box::new(E::Var("n".into())), Box::new(E::Var("k".into())))), Box::new(E::Var("base".into()))))))),
            };
            self.funcs.push(FuncDef { name: format!("mk{i}"), params: vec![("k".into(), T::Int)], ret: T::Fun(vec![T::Int], Box::new(T::Int)), body, mutates_len: false });
        }
    }

    fn stmt_plain(&mut self, d: usize) -> S {
        self.nodes += 1;
        let assignable = self.assignable();
        let arrs: Vec<VarInfo> = self.visible().into_iter().filter(|v| matches!(v.ty, T::Arr(_))).collect();
        let in_loop = self.loop_depth > 0;
        // an early `return` leaves the innermost function: the named function, or the lambda being generated
        let in_fn = (self.fnctx.is_some() && self.lambda_depth == 0) || (self.lambda_depth > 0 && !self.lam_ret.is_empty());
        let d1 = d.saturating_sub(1);
        let loops_ok = self.fl.loops && d > 0 && self.loop_depth < 2;
        // [let, print, assign, opassign, if, while, for-int, for-arr, for-range, break/continue, push, index-assign, expr-call, letpat, return]
        let w = [
            8,
            8,
            if assignable.is_empty() { 0 } else { 4 },
            if assignable.iter().any(|(_, t)| *t == T::Int) { 3 } else { 0 },
            if d > 0 { 3 } else { 0 },
            if loops_ok { 2 } else { 0 },
            if loops_ok { 2 } else { 0 },
            if loops_ok { 2 } else { 0 },
            if loops_ok { 1 } else { 0 },
            if in_loop && (self.fl.brk_in_operand || self.operand_depth == self.loop_base) { 3 } else { 0 },
            if arrs.is_empty() || self.no_len_mut > 0 || self.lambda_depth > 0 { 0 } else { 3 },
            if arrs.is_empty() || !self.fl.errors { 0 } else { 2 },
            if self.funcs.is_empty() { 0 } else { 2 },
            2,
            if in_fn && d > 0 { 1 } else { 0 },
        ];
        match self.t.choose(&w) {
            0 => self.stmt_let(d1),
            1 => {
                let mut t = self.data_ty(2);
                if !self.printable(&t) {
                    t = T::Int;
                }
                S::Print(self.expr(&t, d1))
            }
            2 => {
                self.label("assign");
                let (lv, t) = assignable[self.t.n(assignable.len())].clone();
                S::Assign(lv, self.expr(&t, d1))
            }
            3 => {
                self.label("op-assign");
                let ints: Vec<(LV, T)> = assignable.into_iter().filter(|(_, t)| *t == T::Int).collect();
                let (lv, _) = ints[self.t.n(ints.len())].clone();
                let op = [Op::Add, Op::Sub, Op::Mul, Op::Div, Op::Mod][self.t.n(if self.fl.errors { 5 } else { 3 })];
                S::OpAssign(lv, op, self.expr(&T::Int, d1))
            }
            4 => {
                self.label("if-stmt");
                let c = self.expr(&T::Bool, d1);
                let t = self.block(None, d1, 2);
                let f = if self.t.n(2) == 1 { Some(self.block(None, d1, 2)) } else { None };
                S::If(c, t, f)
            }
            5 => {
                self.label("while");
                let counter = self.fresh("w");
                let n = 1 + self.t.n(4) as i64;
                self.declare(&counter, T::Int, false);
                self.loop_depth += 1;
                let saved_base = std::mem::replace(&mut self.loop_base, self.operand_depth);
                let body = self.block(None, d1, 3);
                self.loop_base = saved_base;
                self.loop_depth -= 1;
                S::While { counter, n, body }
            }
            6 => {
                self.label("for-int");
                let mut n = E::Int(self.t.n(5) as i64);
                let mut var = self.loop_var();
                // `for n in n`: the bound is read in the enclosing scope, the loop variable only exists in the body
                let ints: Vec<VarInfo> = self.visible().into_iter().filter(|v| v.ty == T::Int && v.name != "fuel").collect();
                if self.fl.loop_var_shadowing && !ints.is_empty() && self.t.flip(1, 4) {
                    let v = ints[self.t.n(ints.len())].clone();
                    // keep the iteration count small whatever the variable holds
                    n = E::Bin(Op::Mod, Box::new(E::Var(v.name.clone())), Box::new(E::Int(4)));
                    var = v.name;
                    self.label("loop-var-named-like-its-bound");
                }
                self.scopes.push(vec![VarInfo { name: var.clone(), ty: T::Int, mutable: false, captured: false }]);
                self.loop_depth += 1;
                let saved_base = std::mem::replace(&mut self.loop_base, self.operand_depth);
                let body = self.block(None, d1, 3);
                self.loop_base = saved_base;
                self.loop_depth -= 1;
                self.scopes.pop();
                S::ForInt { var, n, body }
            }
            7 => {
                self.label("for-array");
                // over a visible array variable (then its length must not change) or a fresh literal
                let (arr, elem, over_var) = if !arrs.is_empty() && self.t.n(3) != 0 {
                    let v = arrs[self.t.n(arrs.len())].clone();
                    let T::Arr(e) = &v.ty else { unreachable!() };
                    (E::Var(v.name.clone()), (**e).clone(), true)
                } else {
                    let mut et = self.data_ty(1);
                    if matches!(et, T::Fun(..)) {
                        et = T::Int;
                    }
                    let lit = self.typed_op(&T::Arr(Box::new(et.clone())), d1.max(1));
                    (lit, et, false)
                };
                let mut binds = vec![];
                let mut pat = self.irrefutable_pat(&elem, &mut binds, 1);
                // `for a in a`: the iterable is resolved in the enclosing scope
                if over_var && self.fl.loop_var_shadowing && self.t.flip(1, 4) {
                    if let E::Var(an) = &arr {
                        binds = vec![(an.clone(), elem.clone())];
                        pat = P::Bind(an.clone());
                        self.label("loop-var-named-like-its-iterable");
                    }
                }
                self.scopes.push(binds.into_iter().map(|(n, t)| VarInfo { name: n, ty: t, mutable: false, captured: false }).collect());
                self.loop_depth += 1;
                if over_var {
                    self.no_len_mut += 1;
                }
                let saved_base = std::mem::replace(&mut self.loop_base, self.operand_depth);
                let body = self.block(None, d1, 3);
                self.loop_base = saved_base;
                if over_var {
                    self.no_len_mut -= 1;
                }
                self.loop_depth -= 1;
                self.scopes.pop();
                S::ForArr { pat, arr, body }
            }
            8 => {
                self.label("for-range");
                let lo = E::Int(self.t.n(4) as i64 - 1);
                let hi = E::Int(self.t.n(5) as i64);
                let var = self.loop_var();
                self.scopes.push(vec![VarInfo { name: var.clone(), ty: T::Int, mutable: false, captured: false }]);
                self.loop_depth += 1;
                let saved_base = std::mem::replace(&mut self.loop_base, self.operand_depth);
                let body = self.block(None, d1, 3);
                self.loop_base = saved_base;
                self.loop_depth -= 1;
                self.scopes.pop();
                S::ForRange { var, lo, hi, body }
            }
            9 => {
                // always guarded, so the rest of the loop body stays reachable
                let c = self.expr(&T::Bool, d1);
                let brk = self.t.n(2) == 0;
                self.label(if brk { "break" } else { "continue" });
                if self.operand_depth != self.loop_base {
                    self.label("break-continue-in-operand");
                }
                S::If(c, Block { stmts: vec![if brk { S::Break } else { S::Continue }], tail: None }, None)
            }
            10 => {
                self.label("push");
                self.cur_fn_mutates_len = true;
                let v = arrs[self.t.n(arrs.len())].clone();
                let T::Arr(e) = &v.ty else { unreachable!() };
                let val = self.expr(e, d1);
                S::Push(E::Var(v.name), val)
            }
            11 => {
                self.label("index-assign");
                let fixed: Vec<VarInfo> = arrs.iter().filter(|v| !v.mutable).cloned().collect();
                if fixed.is_empty() {
                    return S::Print(E::Int(1));
                }
                let v = fixed[self.t.n(fixed.len())].clone();
                let T::Arr(e) = &v.ty else { unreachable!() };
                let idx = self.index_expr();
                if matches!(**e, T::Int) && self.t.n(3) == 0 {
                    let op = [Op::Add, Op::Sub, Op::Mul][self.t.n(3)];
                    S::OpAssign(LV::Index(v.name, idx), op, self.expr(&T::Int, d1))
                } else if matches!(**e, T::Void) {
                    // assignment of a void value: covered by C26's finding; keep programs clear of it
                    S::Print(E::Len(Box::new(E::Var(v.name))))
                } else {
                    S::Assign(LV::Index(v.name, idx), self.expr(e, d1))
                }
            }
            12 => {
                let cands: Vec<usize> = (0..self.funcs.len()).filter(|i| !(self.no_len_mut > 0 && self.funcs[*i].mutates_len)).collect();
                if cands.is_empty() {
                    return S::Print(E::Int(0));
                }
                let fi = cands[self.t.n(cands.len())];
                if self.funcs[fi].mutates_len {
                    self.cur_fn_mutates_len = true;
                }
                let ret = self.funcs[fi].ret.clone();
                let e = self.call(fi, d);
                if ret == T::Void {
                    S::Expr(e)
                } else {
                    // a block ending in a non-void expression statement has that type
                    let name = self.fresh("r");
                    self.declare(&name, ret.clone(), false);
                    S::Let { mutable: false, name, ty: ret, annotate: false, e }
                }
            }
            13 => {
                self.label("let-pattern");
                let n = 2 + self.t.n(2);
                let mut ty = T::Tup((0..n).map(|_| self.data_ty(1)).collect());
                if self.fl.structs && !self.structs.is_empty() && self.t.n(3) == 0 {
                    ty = T::St(self.t.n(self.structs.len()));
                }
                let e = self.expr(&ty, d1);
                let mut binds = vec![];
                let p = match &ty {
                    T::Tup(ts) => P::Tup(ts.clone().iter().map(|t| self.irrefutable_pat(t, &mut binds, 1)).collect()),
                    T::St(s) => {
                        let tys: Vec<T> = self.structs[*s].fields.iter().map(|f| f.1.clone()).collect();
                        P::St(*s, tys.iter().map(|t| self.irrefutable_pat(t, &mut binds, 1)).collect())
                    }
                    _ => unreachable!(),
                };
                for (n, t) in binds {
                    self.declare(&n, t, false);
                }
                S::LetPat(p, e)
            }
            _ => {
                self.label("early-return");
                let ret = if self.lambda_depth > 0 {
                    self.label("return-in-lambda");
                    self.lam_ret.last().unwrap().clone()
                } else {
                    self.fnctx.as_ref().unwrap().ret.clone()
                };
                let c = self.expr(&T::Bool, d1);
                let e = self.expr(&ret, d1);
                S::If(c, Block { stmts: vec![S::Return(Some(e))], tail: None }, None)
            }
        }
    }

    fn loop_var(&mut self) -> String {
        if self.fl.loop_var_shadowing && self.t.flip(1, if self.fl.bias == 3 { 2 } else { 5 }) {
            let names: Vec<String> = self.visible().into_iter().map(|v| v.name).filter(|n| n != "fuel").collect();
            if !names.is_empty() {
                self.label("loop-var-shadows");
                return names[self.t.n(names.len())].clone();
            }
        }
        self.fresh("i")
    }

    // ----- top level ----------------------------------------------------------------------

    fn gen_types(&mut self) {
        if self.fl.structs {
            let n = self.t.n(4);
            for i in 0..n {
                let nf = 1 + self.t.n(3);
                let fields = (0..nf).map(|j| (format!("f{j}"), self.data_ty(1))).collect();
                self.structs.push(StructDef { name: format!("Rec{i}"), fields });
            }
        }
        if self.fl.enums {
            let n = self.t.n(3);
            for i in 0..n {
                let nv = 1 + self.t.n(3);
                let mut variants = vec![];
                for j in 0..nv {
                    let arity = self.t.n(3);
                    let mut tys: Vec<T> = (0..arity).map(|_| self.data_ty(1)).collect();
                    // multi-field variants with a void field are a representation corner (the void field has no slot)
                    if self.fl.void_data && arity >= 2 && self.t.n(4) == 0 {
                        let k = self.t.n(arity);
                        tys[k] = T::Void;
                    }
                    // a variant never mentions its own enum or a later one (no recursive types)
                    for t in tys.iter_mut() {
                        if contains_enum(t, i) {
                            *t = T::Int;
                        }
                    }
                    variants.push((format!("Va{i}x{j}"), tys));
                }
                self.enums.push(EnumDef { name: format!("En{i}"), variants });
            }
        }
    }

    fn gen_funcs(&mut self) {
        if !self.fl.funcs {
            return;
        }
        if self.fl.bias == 1 {
            self.gen_maker_funcs();
        }
        if self.fl.bias == 2 {
            self.gen_try_funcs();
        }
        let n = self.t.n(4);
        for i in 0..n {
            let recursive = self.t.n(3) == 0;
            let np = self.t.n(3);
            let mut params: Vec<(String, T)> = vec![];
            if recursive {
                params.push(("fuel".into(), T::Int));
            }
            for j in 0..np {
                let t = if self.fl.lambdas && self.t.flip(1, 8) { T::Fun(vec![T::Int], Box::new(T::Int)) } else { self.data_ty(2) };
                params.push((format!("a{j}"), t));
            }
            let opt_den = if self.fl.bias == 2 { 2 } else { 5 };
            let ret = if self.fl.options && self.fl.try_op && self.t.flip(1, opt_den) { T::Opt(Box::new(self.scalar_ty())) } else { self.data_ty(1) };
            let name = if recursive { format!("rec{i}") } else { format!("fun{i}") };
            self.scopes = vec![params.iter().map(|(n, t)| VarInfo { name: n.clone(), ty: t.clone(), mutable: false, captured: false }).collect()];
            self.fnctx = Some(FnCtx { ret: ret.clone(), rec: if recursive { Some((name.clone(), "fuel".into())) } else { None }, in_else_of_fuel_guard: false });
            self.cur_params = params.iter().map(|p| p.1.clone()).collect();
            self.cur_fn_mutates_len = false;
            self.loop_depth = 0;
            let d = self.fl.depth as usize;
            let body = if recursive {
                let base = self.block(Some(&ret), d.saturating_sub(1), 1);
                self.fnctx.as_mut().unwrap().in_else_of_fuel_guard = true;
                let rec = self.block(Some(&ret), d, 3);
                self.fnctx.as_mut().unwrap().in_else_of_fuel_guard = false;
                Block { stmts: vec![], tail: Some(Box::new(E::If(Box::new(E::Bin(Op::Le, Box::new(E::Var("fuel".into())), Box::new(E::Int(0)))), base, rec))) }
            } else {
                self.block(Some(&ret), d, 4)
            };
            let mutates_len = self.cur_fn_mutates_len;
            self.funcs.push(FuncDef { name, params, ret, body, mutates_len });
        }
        self.fnctx = None;
        self.scopes = vec![vec![]];
        self.cur_params = vec![];
    }
}

fn contains_enum(t: &T, from: usize) -> bool {
    match t {
        T::En(e) => *e >= from,
        T::Tup(ts) => ts.iter().any(|t| contains_enum(t, from)),
        T::Arr(t) | T::Opt(t) => contains_enum(t, from),
        T::Fun(a, r) => a.iter().any(|t| contains_enum(t, from)) || contains_enum(r, from),
        _ => false,
    }
}

pub fn generate(tape: &[u16], fl: &Flags) -> Prog {
    let mut g = G {
        t: Tape { data: tape, pos: 0 },
        fl: fl.clone(),
        structs: vec![],
        enums: vec![],
        funcs: vec![],
        scopes: vec![vec![]],
        next: 0,
        fnctx: None,
        lam_ret: vec![],
        loop_depth: 0,
        lambda_depth: 0,
        no_len_mut: 0,
        cur_fn_mutates_len: false,
        nodes: 0,
        labels: Default::default(),
        cur_params: vec![],
        operand_depth: 0,
        loop_base: 0,
    };
    g.gen_types();
    g.gen_funcs();
    g.nodes = 0;
    g.scopes = vec![vec![]];
    let final_ty = match g.t.n(4) {
        0 => None,
        1 => Some(T::Int),
        2 => Some(T::Bool),
        _ => Some(T::Str),
    };
    let d = fl.depth as usize;
    let n = 1 + g.t.n(fl.size as usize);
    let mut stmts = vec![];
    for _ in 0..n {
        if g.nodes > 600 {
            break;
        }
        stmts.push(g.stmt(d));
    }
    let tail = final_ty.as_ref().map(|t| Box::new(g.expr(t, d)));
    let labels = g.labels.iter().cloned().collect();
    Prog { structs: g.structs, enums: g.enums, funcs: g.funcs, main: Block { stmts, tail }, final_ty, labels }
}
