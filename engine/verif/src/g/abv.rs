//! Values of Abra's built-in types: type text, literal text (with the annotations the language
//! needs), and the reference text rendering written from the property statement of C28.
//! Used by the library checks C25–C28.

use crate::g::values::*;
use proptest::prelude::*;
use serde::{Deserialize, Serialize};

#[derive(Clone, Debug, Serialize, Deserialize, PartialEq, Eq, Hash, PartialOrd, Ord)]
pub enum Ty {
    Int,
    Bool,
    Void,
    Str,
    Arr(Box<Ty>),
    Tup(Vec<Ty>),
    Opt(Box<Ty>),
    Res(Box<Ty>, Box<Ty>),
}

/// `Som`/`Non`/`Okk`/`Er` are option.some / option.none / result.ok / result.err.
#[derive(Clone, Debug, Serialize, Deserialize, PartialEq, Eq, Hash, PartialOrd, Ord)]
pub enum V {
    Int(i64),
    Bool(bool),
    Nil,
    Str(String),
    Arr(Vec<V>),
    Tup(Vec<V>),
    Som(Box<V>),
    Non,
    Okk(Box<V>),
    Er(Box<V>),
}

impl Ty {
    pub fn text(&self) -> String {
        match self {
            Ty::Int => "int".into(),
            Ty::Bool => "bool".into(),
            Ty::Void => "void".into(),
            Ty::Str => "string".into(),
            Ty::Arr(t) => format!("array<{}>", t.text()),
            Ty::Tup(ts) => format!("({})", ts.iter().map(|t| t.text()).collect::<Vec<_>>().join(", ")),
            Ty::Opt(t) => format!("option<{}>", t.text()),
            Ty::Res(a, b) => format!("result<{}, {}>", a.text(), b.text()),
        }
    }
    pub fn depth(&self) -> usize {
        match self {
            Ty::Int | Ty::Bool | Ty::Void | Ty::Str => 0,
            Ty::Arr(t) | Ty::Opt(t) => 1 + t.depth(),
            Ty::Tup(ts) => 1 + ts.iter().map(|t| t.depth()).max().unwrap_or(0),
            Ty::Res(a, b) => 1 + a.depth().max(b.depth()),
        }
    }
}

impl V {
    /// Does the value inhabit the type? (replay files are data; never trust them blindly)
    pub fn conforms(&self, ty: &Ty) -> bool {
        match (self, ty) {
            (V::Int(_), Ty::Int) | (V::Bool(_), Ty::Bool) | (V::Nil, Ty::Void) | (V::Str(_), Ty::Str) => true,
            (V::Arr(xs), Ty::Arr(t)) => xs.iter().all(|x| x.conforms(t)),
            (V::Tup(xs), Ty::Tup(ts)) => xs.len() == ts.len() && (2..=4).contains(&xs.len()) && xs.iter().zip(ts).all(|(x, t)| x.conforms(t)),
            (V::Som(x), Ty::Opt(t)) => x.conforms(t),
            (V::Non, Ty::Opt(_)) => true,
            (V::Okk(x), Ty::Res(t, _)) => x.conforms(t),
            (V::Er(x), Ty::Res(_, e)) => x.conforms(e),
            _ => false,
        }
    }

    /// The reference rendering (property C28): ints decimal, bools true/false, nil, strings
    /// verbatim, arrays `[ a, b ]` (empty: `[  ]`), tuples `(a, b)`, some(x)/none, ok(x)/err(e).
    pub fn render(&self) -> String {
        match self {
            V::Int(n) => n.to_string(),
            V::Bool(b) => (if *b { "true" } else { "false" }).to_string(),
            V::Nil => "nil".into(),
            V::Str(s) => s.clone(),
            V::Arr(xs) => format!("[ {} ]", xs.iter().map(|x| x.render()).collect::<Vec<_>>().join(", ")),
            V::Tup(xs) => format!("({})", xs.iter().map(|x| x.render()).collect::<Vec<_>>().join(", ")),
            V::Som(x) => format!("some({})", x.render()),
            V::Non => "none".into(),
            V::Okk(x) => format!("ok({})", x.render()),
            V::Er(x) => format!("err({})", x.render()),
        }
    }

    /// An expression of this value. Variants are written in the qualified form (`option.some(..)`);
    /// an empty array, `none`, `ok` and `err` take their type from the annotated binding.
    pub fn lit(&self) -> String {
        match self {
            V::Int(n) => int_lit(*n),
            V::Bool(b) => b.to_string(),
            V::Nil => "nil".into(),
            V::Str(s) => str_lit(s),
            V::Arr(xs) => format!("[{}]", xs.iter().map(|x| x.lit()).collect::<Vec<_>>().join(", ")),
            V::Tup(xs) => format!("({})", xs.iter().map(|x| x.lit()).collect::<Vec<_>>().join(", ")),
            V::Som(x) => format!("option.some({})", x.lit()),
            V::Non => "option.none".into(),
            V::Okk(x) => format!("result.ok({})", x.lit()),
            V::Er(x) => format!("result.err({})", x.lit()),
        }
    }

    /// Can the literal be typed without an annotation from context?
    pub fn self_typed(&self) -> bool {
        match self {
            V::Int(_) | V::Bool(_) | V::Nil | V::Str(_) => true,
            V::Arr(xs) => !xs.is_empty() && xs.iter().all(|x| x.self_typed()),
            V::Tup(xs) => xs.iter().all(|x| x.self_typed()),
            V::Som(x) => x.self_typed(),
            V::Non | V::Okk(_) | V::Er(_) => false,
        }
    }

    pub fn depth(&self) -> usize {
        match self {
            V::Int(_) | V::Bool(_) | V::Nil | V::Str(_) => 0,
            V::Non => 1,
            V::Arr(xs) | V::Tup(xs) => 1 + xs.iter().map(|x| x.depth()).max().unwrap_or(0),
            V::Som(x) | V::Okk(x) | V::Er(x) => 1 + x.depth(),
        }
    }

    /// bit set of the container kinds present: 1 array, 2 tuple, 4 option, 8 result
    pub fn kinds(&self) -> u8 {
        match self {
            V::Int(_) | V::Bool(_) | V::Nil | V::Str(_) => 0,
            V::Non => 4,
            V::Arr(xs) => xs.iter().fold(1, |a, x| a | x.kinds()),
            V::Tup(xs) => xs.iter().fold(2, |a, x| a | x.kinds()),
            V::Som(x) => 4 | x.kinds(),
            V::Okk(x) | V::Er(x) => 8 | x.kinds(),
        }
    }

    pub fn nodes(&self) -> usize {
        match self {
            V::Int(_) | V::Bool(_) | V::Nil | V::Str(_) | V::Non => 1,
            V::Arr(xs) | V::Tup(xs) => 1 + xs.iter().map(|x| x.nodes()).sum::<usize>(),
            V::Som(x) | V::Okk(x) | V::Er(x) => 1 + x.nodes(),
        }
    }
}

/// Strings for rendering: empty, brackets, commas, quotes, backslashes, newlines, non-ASCII, and
/// strings that look like other renderings.
pub fn render_strings() -> Vec<String> {
    let mut v = interesting_strings();
    for s in ["[  ]", "[ ]", ", ", ",", "\"", "\"quoted\"", "'", "\\", "\\n", "a\nb", "\n", "\t", "none", "some(1)", "ok(nil)", "err()", "(", ")", "( , )", "false", "0", "-9223372036854775808", "ünï", "[ 1, 2 ]", " ]", "[ "] {
        v.push(s.to_string());
    }
    // the NUL / DEL strings of the shared set stay: they are ordinary characters for `..`
    v.sort();
    v.dedup();
    v
}

pub fn render_string_strategy() -> BoxedStrategy<String> {
    let alphabet: Vec<char> = vec!['a', 'b', 'Z', ' ', '0', '[', ']', ',', '(', ')', '"', '\'', '\\', '\n', '\t', 'é', 'λ', '日', '😀', '\u{80}', '-', '.'];
    prop_oneof![
        3 => proptest::sample::select(render_strings()),
        4 => proptest::collection::vec(proptest::sample::select(alphabet), 0..=6).prop_map(|v| v.into_iter().collect::<String>()),
    ]
    .boxed()
}

fn scalar_ty() -> BoxedStrategy<Ty> {
    prop_oneof![3 => Just(Ty::Int), 2 => Just(Ty::Bool), 2 => Just(Ty::Void), 3 => Just(Ty::Str)].boxed()
}

/// Types with container nesting at most `depth`.
pub fn ty_strategy(depth: u32) -> BoxedStrategy<Ty> {
    if depth == 0 {
        return scalar_ty();
    }
    let inner = ty_strategy(depth - 1);
    prop_oneof![
        2 => scalar_ty(),
        3 => inner.clone().prop_map(|t| Ty::Arr(Box::new(t))),
        3 => proptest::collection::vec(inner.clone(), 2..=4).prop_map(Ty::Tup),
        2 => inner.clone().prop_map(|t| Ty::Opt(Box::new(t))),
        2 => (inner.clone(), inner).prop_map(|(a, b)| Ty::Res(Box::new(a), Box::new(b))),
    ]
    .boxed()
}

/// Values of a given type (arrays of length 0..=3, both variants of option/result).
pub fn val_strategy(ty: &Ty) -> BoxedStrategy<V> {
    match ty {
        Ty::Int => int_strategy().prop_map(V::Int).boxed(),
        Ty::Bool => any::<bool>().prop_map(V::Bool).boxed(),
        Ty::Void => Just(V::Nil).boxed(),
        Ty::Str => render_string_strategy().prop_map(V::Str).boxed(),
        Ty::Arr(t) => prop_oneof![
            1 => Just(V::Arr(vec![])),
            5 => proptest::collection::vec(val_strategy(t), 1..=3).prop_map(V::Arr),
        ]
        .boxed(),
        Ty::Tup(ts) => {
            let parts: Vec<BoxedStrategy<V>> = ts.iter().map(val_strategy).collect();
            parts.prop_map(V::Tup).boxed()
        }
        Ty::Opt(t) => prop_oneof![
            1 => Just(V::Non),
            3 => val_strategy(t).prop_map(|x| V::Som(Box::new(x))),
        ]
        .boxed(),
        Ty::Res(a, b) => prop_oneof![
            1 => val_strategy(a).prop_map(|x| V::Okk(Box::new(x))),
            1 => val_strategy(b).prop_map(|x| V::Er(Box::new(x))),
        ]
        .boxed(),
    }
}

/// The index of the first byte where two texts differ (None when equal).
pub fn first_diff(a: &str, b: &str) -> Option<usize> {
    let (x, y) = (a.as_bytes(), b.as_bytes());
    let n = x.len().min(y.len());
    for i in 0..n {
        if x[i] != y[i] {
            return Some(i);
        }
    }
    if x.len() != y.len() { Some(n) } else { None }
}

/// A window of text around a byte offset, for failure messages.
pub fn excerpt(s: &str, at: usize) -> String {
    let lo = at.saturating_sub(40);
    let hi = (at + 40).min(s.len());
    let (mut lo, mut hi) = (lo, hi);
    while lo > 0 && !s.is_char_boundary(lo) {
        lo -= 1;
    }
    while hi < s.len() && !s.is_char_boundary(hi) {
        hi += 1;
    }
    s[lo..hi].to_string()
}
