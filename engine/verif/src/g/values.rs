//! Boundary value sets and literal printers shared by several checks.

use proptest::prelude::*;

pub fn int_boundaries() -> Vec<i64> {
    let mut v: Vec<i64> = vec![
        0, 1, -1, 2, -2, 3, -3, 7, -7, 10, 63, 64, 65, 100, -100, 255, 256, 1000, 65535, 65536, 65537,
        (1i64 << 31) - 1, 1i64 << 31, (1i64 << 31) + 1, -(1i64 << 31), -(1i64 << 31) - 1,
        (1i64 << 32) - 1, 1i64 << 32, (1i64 << 32) + 1, (1i64 << 32) + 2, 4294967298, -(1i64 << 32),
        3037000499, 3037000500, -3037000499, -3037000500, 2097151, 2097152,
        1i64 << 62, -(1i64 << 62), (1i64 << 62) - 1, (1i64 << 62) + 1,
        i64::MAX, i64::MAX - 1, i64::MIN, i64::MIN + 1, i64::MAX / 2, i64::MAX / 2 + 1, i64::MIN / 2, i64::MIN / 2 - 1,
        i64::MAX / 3, 4611686018427387904, 6074001000, 55108, 55109, 1626, 1627,
    ];
    v.sort();
    v.dedup();
    v
}

/// ints: half boundary set, half random (full range and small)
pub fn int_strategy() -> BoxedStrategy<i64> {
    let b = int_boundaries();
    prop_oneof![
        4 => proptest::sample::select(b),
        3 => any::<i64>(),
        2 => -1000i64..1000,
        1 => (0u32..64, any::<bool>(), -2i64..3).prop_map(|(s, neg, d)| {
            let v = (1i128 << s) + d as i128;
            let v = if neg { -v } else { v };
            v.clamp(i64::MIN as i128, i64::MAX as i128) as i64
        }),
    ]
    .boxed()
}

pub fn int_lit(n: i64) -> String {
    if n < 0 { format!("({n})") } else { format!("{n}") }
}

pub fn float_boundaries() -> Vec<f64> {
    let mut v = vec![
        0.0, -0.0, 1.0, -1.0, 0.5, -0.5, 0.1, 0.2, 0.3, 1.5, 2.0, -2.0, 2.5, 3.0, 10.0, 100.0, 1e-3, 1e3,
        f64::MIN_POSITIVE, 5e-324, 2.2250738585072009e-308, 1e-308, 1e-320,
        9007199254740992.0, 9007199254740994.0, 9007199254740993.0, 4503599627370496.5,
        9.2e18, 9223372036854775807.0, 9223372036854774784.0, -9223372036854775808.0,
        1e308, 1.7e308, f64::MAX, -f64::MAX, 1e154, 1e155, 1.3407807929942597e154,
        0.30000000000000004, 123456.789, 3.141592653589793, 2.718281828459045, 1e16, 1e15, 1e21, 1e22, 1e23,
        4294967296.0, 4294967295.5, 0.49999999999999994, 0.5000000000000001, 1.0000000000000002, 0.9999999999999999,
    ];
    let neg: Vec<f64> = v.iter().map(|x: &f64| -*x).collect();
    v.extend(neg);
    let mut seen = std::collections::HashSet::new();
    v.retain(|x| seen.insert(x.to_bits()));
    v
}

/// finite floats only (no literal syntax exists for inf/NaN)
pub fn float_strategy() -> BoxedStrategy<f64> {
    let b = float_boundaries();
    prop_oneof![
        4 => proptest::sample::select(b),
        3 => any::<u64>().prop_map(f64::from_bits).prop_filter("finite", |x| x.is_finite()),
        2 => (-1000i32..1000, 1u32..1000).prop_map(|(a, b)| a as f64 / b as f64),
        1 => (-300i32..300, 1u32..99999).prop_map(|(e, m)| m as f64 * 10f64.powi(e)).prop_filter("finite", |x| x.is_finite()),
    ]
    .boxed()
}

/// A decimal literal (digits '.' digits, no exponent) that parses to exactly `x`.
/// Abra has no exponent syntax, so extreme magnitudes are written out in full.
pub fn float_lit_plain(x: f64) -> String {
    assert!(x.is_finite());
    let neg = x.is_sign_negative();
    let a = x.abs();
    // shortest round-trip digits via {:e}
    let s = format!("{:e}", a); // d.ddddde[-]N
    let (mant, exp) = s.split_once('e').unwrap();
    let exp: i32 = exp.parse().unwrap();
    let digits: String = mant.chars().filter(|c| c.is_ascii_digit()).collect();
    let point = 1 + exp; // position of decimal point relative to digits start
    let mut out = String::new();
    if point <= 0 {
        out.push_str("0.");
        for _ in 0..(-point) {
            out.push('0');
        }
        out.push_str(&digits);
    } else if point as usize >= digits.len() {
        out.push_str(&digits);
        for _ in 0..(point as usize - digits.len()) {
            out.push('0');
        }
        out.push_str(".0");
    } else {
        out.push_str(&digits[..point as usize]);
        out.push('.');
        out.push_str(&digits[point as usize..]);
    }
    debug_assert_eq!(out.parse::<f64>().unwrap().to_bits(), a.to_bits());
    if neg { format!("(-{out})") } else { out }
}

/// compare floats the way the evidence rule says: bit-exact, all NaNs one class
pub fn fbits_eq(a: f64, b: f64) -> bool {
    (a.is_nan() && b.is_nan()) || a.to_bits() == b.to_bits()
}

/// Parse the text Abra prints for a float (Rust's f64 Display: `inf`, `-inf`, `NaN`, decimal).
pub fn parse_printed_float(s: &str) -> Option<f64> {
    match s {
        "inf" => Some(f64::INFINITY),
        "-inf" => Some(f64::NEG_INFINITY),
        "NaN" => Some(f64::NAN),
        _ => s.parse::<f64>().ok(),
    }
}

/// Escape text into a double-quoted Abra string literal.
pub fn str_lit(s: &str) -> String {
    let mut o = String::from("\"");
    for c in s.chars() {
        match c {
            '"' => o.push_str("\\\""),
            '\\' => o.push_str("\\\\"),
            '\n' => o.push_str("\\n"),
            '\t' => o.push_str("\\t"),
            '\r' => o.push_str("\\r"),
            c if (c as u32) < 0x20 || c as u32 == 0x7f => o.push_str(&format!("\\x{:02x}", c as u32)),
            c => o.push(c),
        }
    }
    o.push('"');
    o
}

pub fn interesting_strings() -> Vec<String> {
    [
        "", "a", "b", "aa", "ab", "abc", "abd", "ab ", "A", "Z", "z", "0", "9", " ", "~", "a\u{0}", "\u{7f}", "é", "e", "f", "ée", "éé", "λ", "日", "日本", "😀", "😀a", "a😀",
        "\u{80}", "\u{7ff}", "\u{800}", "\u{ffff}", "\u{10000}", "zz", "zzz", "hello", "hello world", "hellp", "[ a, b ]", "(a, b)", "some(x)", "nil", "true", "-1",
    ]
    .iter()
    .map(|s| s.to_string())
    .collect()
}

pub fn string_strategy(max_len: usize) -> BoxedStrategy<String> {
    let alphabet: Vec<char> = vec!['a', 'b', 'c', 'z', 'A', ' ', '0', '~', '!', 'é', 'λ', '日', '😀', '\u{80}', '\u{7f}', '\u{7ff}', '\u{800}', '\u{10000}', '[', ',', ')'];
    prop_oneof![
        2 => proptest::sample::select(interesting_strings()),
        5 => proptest::collection::vec(proptest::sample::select(alphabet), 0..=max_len).prop_map(|v| v.into_iter().collect::<String>()),
    ]
    .boxed()
}
