//! Task / channel program shapes whose printed output is schedule independent by construction
//! (every interaction is synchronised through channels; only the main task prints).

use serde::{Deserialize, Serialize};

/// heap value kinds that cross task boundaries
#[derive(Clone, Copy, Debug, Serialize, Deserialize, PartialEq, Eq, Hash)]
pub enum Kind {
    ArrInt,
    ArrArr,
    Struct,
    Tuple,
    EnumPayload,
    Str,
    OptArr,
    ArrStr,
    /// option<int>: an enum object with a scalar payload
    OptInt,
    /// a variant without payload
    EnumPlain,
    /// a variant of an enum with 300 variants, index 250..299 (does not fit a byte)
    BigEnum,
    /// struct whose fields are an option<int> and a payload-less variant (scalar-payload enum objects inside a copied aggregate)
    RecOpt,
}

pub const KINDS: [Kind; 12] = [Kind::ArrInt, Kind::ArrArr, Kind::Struct, Kind::Tuple, Kind::EnumPayload, Kind::Str, Kind::OptArr, Kind::ArrStr, Kind::OptInt, Kind::EnumPlain, Kind::BigEnum, Kind::RecOpt];

pub const DECLS: &str = "type Rec = {\n  x: int\n  arr: array<int>\n}\n\ntype Bx =\n  | Fu(array<int>)\n  | Em\n\n";

pub const BIG_VARIANTS: i64 = 300;

/// declarations for programs using values of `kind` (the 300-variant enum only where it is used)
pub fn decls_for(kind: Kind) -> String {
    let mut s = String::from(DECLS);
    match kind {
        Kind::BigEnum => {
            s.push_str("type Big =\n");
            for i in 0..BIG_VARIANTS {
                s.push_str(&format!("  | Gx{i}\n"));
            }
            s.push_str("\nfn big_ix(b: Big) -> int {\n  match b {\n");
            for i in 0..BIG_VARIANTS {
                s.push_str(&format!("    .Gx{i} -> {i}\n"));
            }
            s.push_str("  }\n}\n\n");
        }
        Kind::RecOpt => s.push_str("type Ro = {\n  o: option<int>\n  e: Bx\n  n: int\n}\n\n"),
        _ => {}
    }
    s
}

/// the harness-side model of one value
#[derive(Clone, Debug, PartialEq, Serialize, Deserialize)]
pub struct Mv {
    pub kind: Kind,
    pub ints: Vec<i64>,
    pub x: i64,
    pub s: String,
}

fn arr(v: &[i64]) -> String {
    format!("[ {} ]", v.iter().map(|n| n.to_string()).collect::<Vec<_>>().join(", "))
}

impl Mv {
    pub fn new(kind: Kind, ints: &[i64], x: i64, s: &str) -> Mv {
        Mv { kind, ints: ints.to_vec(), x, s: s.to_string() }
    }

    pub fn ty(&self) -> &'static str {
        match self.kind {
            Kind::ArrInt => "array<int>",
            Kind::ArrArr => "array<array<int>>",
            Kind::Struct => "Rec",
            Kind::Tuple => "(array<int>, string)",
            Kind::EnumPayload => "Bx",
            Kind::Str => "string",
            Kind::OptArr => "option<array<int>>",
            Kind::ArrStr => "array<string>",
            Kind::OptInt => "option<int>",
            Kind::EnumPlain => "Bx",
            Kind::BigEnum => "Big",
            Kind::RecOpt => "Ro",
        }
    }

    fn arr_lit(&self) -> String {
        format!("[{}]", self.ints.iter().map(|n| if *n < 0 { format!("({n})") } else { n.to_string() }).collect::<Vec<_>>().join(", "))
    }

    /// expression constructing the value (always allocates fresh heap objects)
    pub fn lit(&self) -> String {
        let a = if self.ints.is_empty() { "array.filled(0, 0)".to_string() } else { self.arr_lit() };
        match self.kind {
            Kind::ArrInt => a,
            Kind::ArrArr => format!("[{a}, [7]]"),
            Kind::Struct => format!("Rec({}, {a})", self.x),
            Kind::Tuple => format!("({a}, {} .. \"\")", crate::g::values::str_lit(&self.s)),
            Kind::EnumPayload => format!("Bx.Fu({a})"),
            Kind::Str => format!("{} .. \"#\"", crate::g::values::str_lit(&self.s)),
            Kind::OptArr => format!("option.some({a})"),
            Kind::ArrStr => format!("[{}]", self.ints.iter().map(|n| format!("\"s{n}\" .. \"\"")).chain(std::iter::once(format!("{} .. \"\"", crate::g::values::str_lit(&self.s)))).collect::<Vec<_>>().join(", ")),
            Kind::OptInt => format!("option.some({})", self.scalar_lit()),
            Kind::EnumPlain => "Bx.Em".to_string(),
            Kind::BigEnum => format!("Big.Gx{}", self.big_ix()),
            Kind::RecOpt => format!("Ro(option.some({}), Bx.Em, {})", self.scalar_lit(), self.x),
        }
    }

    fn scalar(&self) -> i64 {
        self.ints.first().copied().unwrap_or(7)
    }

    fn scalar_lit(&self) -> String {
        let n = self.scalar();
        if n < 0 { format!("({n})") } else { n.to_string() }
    }

    fn big_ix(&self) -> i64 {
        250 + (self.scalar() + self.x).rem_euclid(BIG_VARIANTS - 250)
    }

    /// string expression rendering variable `v`
    pub fn observe(&self, v: &str) -> String {
        match self.kind {
            Kind::ArrInt | Kind::ArrArr | Kind::Str | Kind::ArrStr => format!("\"\" .. {v}"),
            Kind::Struct => format!("{v}.x .. \":\" .. {v}.arr"),
            Kind::Tuple => format!("\"\" .. {v}"),
            Kind::EnumPayload => format!("match {v} {{\n    .Fu(a) -> \"Fu\" .. a\n    .Em -> \"Em\"\n  }}"),
            Kind::OptArr => format!("match {v} {{\n    .some(a) -> \"some\" .. a\n    .none -> \"none\"\n  }}"),
            Kind::OptInt => format!("match {v} {{\n    .some(n) -> \"some\" .. n\n    .none -> \"none\"\n  }}"),
            Kind::EnumPlain => format!("match {v} {{\n    .Fu(a) -> \"Fu\" .. a\n    .Em -> \"Em\"\n  }}"),
            Kind::BigEnum => format!("\"G\" .. big_ix({v})"),
            Kind::RecOpt => format!("match {v}.o {{\n    .some(n) -> \"some\" .. n\n    .none -> \"none\"\n  }} .. match {v}.e {{\n    .Fu(a) -> \"Fu\" .. a\n    .Em -> \"Em\"\n  }} .. {v}.n"),
        }
    }

    /// what `observe` evaluates to
    pub fn rendered(&self) -> String {
        match self.kind {
            Kind::ArrInt => arr(&self.ints),
            Kind::ArrArr => format!("[ {}, [ 7 ] ]", arr(&self.ints)),
            Kind::Struct => format!("{}:{}", self.x, arr(&self.ints)),
            Kind::Tuple => format!("({}, {})", arr(&self.ints), self.s),
            Kind::EnumPayload => format!("Fu{}", arr(&self.ints)),
            Kind::Str => match self.s.split_once('+') {
                Some((a, b)) => format!("{a}#+{b}"),
                None => format!("{}#", self.s),
            },
            Kind::OptArr => format!("some{}", arr(&self.ints)),
            Kind::ArrStr => format!("[ {} ]", self.ints.iter().map(|n| format!("s{n}")).chain(std::iter::once(self.s.clone())).collect::<Vec<_>>().join(", ")),
            Kind::OptInt => format!("some{}", self.scalar()),
            Kind::EnumPlain => "Em".to_string(),
            Kind::BigEnum => format!("G{}", self.big_ix()),
            Kind::RecOpt => format!("some{}Em{}", self.scalar(), self.x),
        }
    }

    pub fn mutable(&self) -> bool {
        !matches!(self.kind, Kind::Str | Kind::OptInt | Kind::EnumPlain | Kind::BigEnum)
    }

    /// statements mutating variable `v` in place with value `n`, and the same change on the model
    pub fn mutate(&mut self, v: &str, n: i64, ind: &str) -> String {
        let nl = if n < 0 { format!("({n})") } else { n.to_string() };
        match self.kind {
            Kind::ArrInt => {
                self.ints.push(n);
                format!("{ind}{v}.push({nl})\n")
            }
            Kind::ArrArr => {
                self.ints.push(n);
                format!("{ind}{v}[0].push({nl})\n")
            }
            Kind::Struct => {
                self.x = n;
                self.ints.push(n);
                format!("{ind}{v}.x = {nl}\n{ind}{v}.arr.push({nl})\n")
            }
            Kind::Tuple => {
                self.ints.push(n);
                format!("{ind}match {v} {{\n{ind}  (a, _) -> a.push({nl})\n{ind}}}\n")
            }
            Kind::EnumPayload => {
                self.ints.push(n);
                format!("{ind}match {v} {{\n{ind}  .Fu(a) -> a.push({nl})\n{ind}  .Em -> {{}}\n{ind}}}\n")
            }
            Kind::OptArr => {
                self.ints.push(n);
                format!("{ind}match {v} {{\n{ind}  .some(a) -> a.push({nl})\n{ind}  .none -> {{}}\n{ind}}}\n")
            }
            Kind::ArrStr => {
                // append to the trailing string element (its index depends on the value, so use len())
                self.s = format!("{}+{n}", self.s);
                format!("{ind}{v}[{v}.len() - 1] = {v}[{v}.len() - 1] .. \"+{n}\"\n")
            }
            Kind::Str | Kind::OptInt | Kind::EnumPlain | Kind::BigEnum => String::new(),
            Kind::RecOpt => {
                self.x = n;
                format!("{ind}{v}.n = {nl}\n")
            }
        }
    }

    /// Statements that make the current task produce the value it passes on: mutable kinds are mutated
    /// in place (returns `v` itself), immutable kinds are re-created as a fresh object of the current
    /// task's heap in a new variable (returns its name). The model is updated alike.
    pub fn forward(&mut self, v: &str, n: i64, ind: &str) -> (String, String) {
        let w = format!("{v}w");
        match self.kind {
            Kind::OptInt => {
                let base = self.scalar();
                self.ints = vec![base + n];
                (format!("{ind}let {w}: option<int> = match {v} {{\n{ind}  .some(k) -> option.some(k + {n})\n{ind}  .none -> option.none\n{ind}}}\n"), w)
            }
            Kind::EnumPlain => (format!("{ind}let {w} = match {v} {{\n{ind}  .Em -> Bx.Em\n{ind}  .Fu(a) -> Bx.Fu(a)\n{ind}}}\n"), w),
            Kind::BigEnum => {
                // value independent (the forwarding task does not know which variant arrives): a fresh
                // object of the same variant for every index the generator uses
                let mut t = format!("{ind}let {w} = match {v} {{\n");
                for k in 250..BIG_VARIANTS {
                    t.push_str(&format!("{ind}  .Gx{k} -> Big.Gx{k}\n"));
                }
                t.push_str(&format!("{ind}  _ -> Big.Gx0\n{ind}}}\n"));
                (t, w)
            }
            Kind::Str => {
                self.s = format!("{}+{n}", self.s);
                (format!("{ind}let {w} = {v} .. \"+{n}\"\n"), w)
            }
            Kind::RecOpt => {
                let base = self.scalar();
                self.ints = vec![base + n];
                self.x = n;
                (format!("{ind}let {w} = Ro(match {v}.o {{\n{ind}  .some(k) -> option.some(k + {n})\n{ind}  .none -> option.none\n{ind}}}, Bx.Em, {n})\n"), w)
            }
            _ => (self.mutate(v, n, ind), v.to_string()),
        }
    }
}
