//! Hand-written (or saved) source-level cases with a recorded expected outcome. They are the
//! regression tier of the program-level checks and do not depend on the generators, so they stay
//! valid when a generator changes.

use crate::harness::*;
use crate::proto::*;
use crate::try_exec;
use proptest::prelude::*;
use serde::{Deserialize, Serialize};
use serde_json::json;

#[derive(Clone, Debug, Serialize, Deserialize)]
pub struct SrcCase {
    pub files: Vec<SrcFile>,
    #[serde(default = "default_main")]
    pub main: String,
    /// exact expected stdout (None = not compared)
    pub stdout: Option<String>,
    /// "done" | "panic" | "oob" | "overflow" | "div0" | "rejected" (compile diagnostics) | "accepted" (compiles; not run)
    pub end: String,
    /// budgets to run under (each must give the same result); empty = [1000]
    #[serde(default)]
    pub budgets: Vec<u32>,
    /// added to a failure's features as `tag:<t>` (lets a known-finding signature name its probe)
    #[serde(default)]
    pub tags: Vec<String>,
    /// also run with a GC cycle started at every `stride`-th maybe_gc call below `max_start`, three paces, quarantine on
    #[serde(default)]
    pub gc_sweep: Option<(u32, u32)>,
}

fn default_main() -> String {
    "main.abra".into()
}

pub struct SrcProp {
    pub name: &'static str,
}

impl Prop for SrcProp {
    type Case = SrcCase;
    fn name(&self) -> &'static str {
        self.name
    }
    fn rule(&self) -> &'static str {
        "saved source programs with their recorded expected output / end kind (regression tier; every file is one non-trivial case)"
    }
    fn n_cases(&self, _tier: Tier) -> u32 {
        0
    }
    fn strategy(&self, _tier: Tier, _f: &Findings) -> BoxedStrategy<Self::Case> {
        Just(SrcCase { files: single("0"), main: default_main(), stdout: None, end: "done".into(), budgets: vec![], tags: vec![], gc_sweep: None }).boxed()
    }
    fn judge(&self, c: &Self::Case, env: &mut Env) -> Verdict {
        match self.judge_inner(c, env) {
            Verdict::Fail(f) => Verdict::Fail(f.feats(c.tags.iter().map(|t| format!("tag:{t}")))),
            other => other,
        }
    }
}

impl SrcProp {
    fn judge_inner(&self, c: &SrcCase, env: &mut Env) -> Verdict {
        let mut st = CaseStats::one();
        st.nt(&c.files);
        st.sample = Some(json!({"src": c.files[0].text, "expect_end": c.end}));
        if c.end == "rejected" || c.end == "accepted" {
            let (chk, cmp) = try_exec!(env.front(&c.files, &c.main, true, true));
            for (which, v) in [("check", &chk), ("compile", &cmp)] {
                if let FrontVerdict::Panic(p) = v {
                    return Verdict::Fail(Failure::new("HostPanic", norm_msg(&p.msg)).feat(format!("file:{}", base(&p.file))).feat(format!("phase:{which}")).detail(json!({"panic": p})));
                }
            }
            let ok = if c.end == "rejected" { chk.is_diag() && cmp.is_diag() } else { chk.is_ok() && cmp.is_ok() };
            if !ok {
                return Verdict::Fail(Failure::new("VerdictMismatch", format!("expected {} but check={:?} compile={:?}", c.end, short(&chk), short(&cmp))));
            }
            return Verdict::Pass(st);
        }
        let budgets = if c.budgets.is_empty() { vec![1000] } else { c.budgets.clone() };
        for b in budgets {
            let opts = RunOpts { budgets: vec![b], ..RunOpts::default() };
            let r = try_exec!(env.run(&c.files, &c.main, &opts));
            if let Some(f) = crash_failure(&r) {
                return Verdict::Fail(f);
            }
            if let FrontVerdict::Diag(d) = &r.compile {
                return Verdict::Fail(Failure::new("VerdictMismatch", format!("program rejected: {}", norm_msg(d.lines().find(|l| !l.trim().is_empty()).unwrap_or("")))).detail(json!({"diagnostics": d})));
            }
            let got = match &r.end {
                RunEnd::Done => "done".to_string(),
                RunEnd::Error { kind, .. } => kind.tag().to_string(),
                other => format!("{other:?}"),
            };
            if got != c.end {
                return Verdict::Fail(Failure::new("OutcomeMismatch", format!("expected end {} got {}", c.end, got.chars().take(120).collect::<String>())).feat(format!("budget:{b}")));
            }
            if let Some(exp) = &c.stdout {
                if &r.stdout != exp {
                    return Verdict::Fail(Failure::new("OutcomeMismatch", format!("expected output {exp:?} got {:?}", r.stdout)).feat(format!("budget:{b}")));
                }
            }
        }
        if let Some((max_start, stride)) = c.gc_sweep {
            let mut variants = vec![];
            let mut start = 0;
            while start < max_start {
                for pace in [2u8, 4, 6] {
                    variants.push(Variant { gc: Some(GcSpec::StartAt { start, pace }), quarantine: Some(true), ..Variant::sel(0) });
                }
                start += stride.max(1);
            }
            let outs = try_exec!(env.run_var(&c.files, &c.main, &RunOpts::default(), &variants));
            st.evals += outs.len() as u64;
            for (r, v) in outs.iter().zip(variants.iter()) {
                if let Some(f) = crash_failure(r) {
                    return Verdict::Fail(f.feat(format!("sched:{:?}", v.gc)));
                }
                let got = match &r.end {
                    RunEnd::Done => "done".to_string(),
                    RunEnd::Error { kind, .. } => kind.tag().to_string(),
                    other => format!("{other:?}"),
                };
                if got != c.end || c.stdout.as_ref().map(|e| e != &r.stdout).unwrap_or(false) {
                    return Verdict::Fail(Failure::new("OutcomeMismatch", format!("under GC schedule {:?}: end {got}, output {:?}", v.gc, r.stdout)));
                }
            }
        }
        Verdict::Pass(st)
    }
}

fn short(v: &FrontVerdict) -> String {
    match v {
        FrontVerdict::Diag(d) => format!("Diag({})", d.lines().find(|l| !l.trim().is_empty()).unwrap_or("").chars().take(80).collect::<String>()),
        other => format!("{other:?}").chars().take(120).collect(),
    }
}
