//! Many tiny cases in one compilation unit: one function per case, selected at run time by the
//! host function `verif_sel()`, so the prelude is analysed once per batch and a runtime error in
//! one case does not hide the others (each selector gets a fresh runtime).

use crate::harness::{Env, Exec};
use crate::proto::*;

pub fn batch_source(items: &str, bodies: &[String]) -> String {
    let mut s = String::from("#host\nfn verif_sel() -> int\n\n");
    s.push_str(items);
    s.push('\n');
    for (i, b) in bodies.iter().enumerate() {
        s.push_str(&format!("fn case_{i}() {{\n{b}\n}}\n\n"));
    }
    s.push_str("match verif_sel() {\n");
    for i in 0..bodies.len() {
        s.push_str(&format!("  {i} -> case_{i}()\n"));
    }
    s.push_str("  _ -> nil\n}\n");
    s
}

/// Run every body; returns one RunOut per body (or the single compile-failure RunOut).
pub fn run_batch(env: &mut Env, items: &str, bodies: &[String], opts: &RunOpts) -> Exec<(String, Vec<RunOut>)> {
    let src = batch_source(items, bodies);
    let sels: Vec<i64> = (0..bodies.len() as i64).collect();
    match env.run_many(&single(src.clone()), "main.abra", opts, &sels) {
        Exec::Ok(v) => Exec::Ok((src, v)),
        Exec::Abort(f) => Exec::Abort(f),
        Exec::Inconclusive(s) => Exec::Inconclusive(s),
    }
}
