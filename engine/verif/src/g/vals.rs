//! First-order Abra values of built-in types: types, literal printing, strategies.

use crate::g::values::*;
use proptest::prelude::*;
use serde::{Deserialize, Serialize};

#[derive(Clone, Debug, Serialize, Deserialize, PartialEq, Eq, Hash)]
pub enum Ty {
    Int,
    Float,
    Bool,
    Str,
    Void,
    Tuple(Vec<Ty>),
    Array(Box<Ty>),
}

/// Floats are kept as bits so that cases serialise exactly; non-finite values are computed
/// by expressions because the language has no literal for them.
#[derive(Clone, Debug, Serialize, Deserialize, PartialEq, Eq, Hash)]
pub enum Val {
    Int(i64),
    Float(u64),
    Bool(bool),
    Str(String),
    Void,
    Tuple(Vec<Val>),
    Array(Vec<Val>),
}

impl Ty {
    pub fn name(&self) -> String {
        match self {
            Ty::Int => "int".into(),
            Ty::Float => "float".into(),
            Ty::Bool => "bool".into(),
            Ty::Str => "string".into(),
            Ty::Void => "void".into(),
            Ty::Tuple(ts) => format!("({})", ts.iter().map(|t| t.name()).collect::<Vec<_>>().join(", ")),
            Ty::Array(t) => format!("array<{}>", t.name()),
        }
    }
    pub fn has_float(&self) -> bool {
        match self {
            Ty::Float => true,
            Ty::Tuple(ts) => ts.iter().any(|t| t.has_float()),
            Ty::Array(t) => t.has_float(),
            _ => false,
        }
    }
    pub fn has_array(&self) -> bool {
        match self {
            Ty::Array(_) => true,
            Ty::Tuple(ts) => ts.iter().any(|t| t.has_array()),
            _ => false,
        }
    }
    pub fn depth(&self) -> usize {
        match self {
            Ty::Tuple(ts) => 1 + ts.iter().map(|t| t.depth()).max().unwrap_or(0),
            Ty::Array(t) => 1 + t.depth(),
            _ => 0,
        }
    }
}

pub fn float_expr(bits: u64) -> String {
    let x = f64::from_bits(bits);
    if x.is_nan() {
        // sqrt of a negative number: the only documented way to obtain NaN without dividing by zero
        "sqrt(-1.0)".to_string()
    } else if x == f64::INFINITY {
        format!("({} * 10.0)", float_lit_plain(f64::MAX))
    } else if x == f64::NEG_INFINITY {
        format!("({} * 10.0)", float_lit_plain(-f64::MAX))
    } else {
        float_lit_plain(x)
    }
}

impl Val {
    /// expression text; `ty` is needed for empty arrays only (callers bind with an annotation)
    pub fn expr(&self) -> String {
        match self {
            Val::Int(n) => int_lit(*n),
            Val::Float(b) => float_expr(*b),
            Val::Bool(b) => b.to_string(),
            Val::Str(s) => str_lit(s),
            Val::Void => "nil".into(),
            Val::Tuple(vs) => format!("({})", vs.iter().map(|v| v.expr()).collect::<Vec<_>>().join(", ")),
            Val::Array(vs) => format!("[{}]", vs.iter().map(|v| v.expr()).collect::<Vec<_>>().join(", ")),
        }
    }
}

pub fn leaf_ty() -> BoxedStrategy<Ty> {
    prop_oneof![3 => Just(Ty::Int), 2 => Just(Ty::Bool), 2 => Just(Ty::Str), 1 => Just(Ty::Void), 2 => Just(Ty::Float)].boxed()
}

pub fn ty_strategy(depth: u32) -> BoxedStrategy<Ty> {
    if depth == 0 {
        return leaf_ty();
    }
    let inner = ty_strategy(depth - 1);
    prop_oneof![
        3 => leaf_ty(),
        3 => proptest::collection::vec(inner.clone(), 2..=4).prop_map(Ty::Tuple),
        2 => inner.prop_map(|t| Ty::Array(Box::new(t))),
    ]
    .boxed()
}

/// values drawn from deliberately small pools so that equal values and near-equal values are common
pub fn val_strategy(ty: &Ty) -> BoxedStrategy<Val> {
    match ty {
        Ty::Int => prop_oneof![
            4 => proptest::sample::select(vec![0i64, 1, -1, 2, i64::MIN, i64::MAX, i64::MIN + 1, 42]).prop_map(Val::Int),
            1 => any::<i64>().prop_map(Val::Int),
        ]
        .boxed(),
        Ty::Float => prop_oneof![
            5 => proptest::sample::select(vec![
                0.0f64, -0.0, 1.0, -1.0, 0.5, 1.5, f64::MAX, -f64::MAX, f64::MIN_POSITIVE, 5e-324, -5e-324, f64::INFINITY, f64::NEG_INFINITY, f64::NAN, 0.1, 0.30000000000000004
            ])
            .prop_map(|x| Val::Float(x.to_bits())),
            1 => float_strategy().prop_map(|x| Val::Float(x.to_bits())),
        ]
        .boxed(),
        Ty::Bool => any::<bool>().prop_map(Val::Bool).boxed(),
        Ty::Str => prop_oneof![
            3 => proptest::sample::select(vec!["", "a", "b", "ab", "aa", "abc", "é", "e", "z", "日", "a\u{80}", "A"]).prop_map(|s| Val::Str(s.to_string())),
            1 => string_strategy(6).prop_map(Val::Str),
        ]
        .boxed(),
        Ty::Void => Just(Val::Void).boxed(),
        Ty::Tuple(ts) => {
            let parts: Vec<BoxedStrategy<Val>> = ts.iter().map(val_strategy).collect();
            parts.prop_map(Val::Tuple).boxed()
        }
        Ty::Array(t) => proptest::collection::vec(val_strategy(t), 0..=3).prop_map(Val::Array).boxed(),
    }
}

/// every value of a finite type (bool / void / tuples and short arrays of those)
pub fn all_values(ty: &Ty, max_array_len: usize) -> Vec<Val> {
    match ty {
        Ty::Bool => vec![Val::Bool(false), Val::Bool(true)],
        Ty::Void => vec![Val::Void],
        Ty::Tuple(ts) => {
            let mut acc: Vec<Vec<Val>> = vec![vec![]];
            for t in ts {
                let vs = all_values(t, max_array_len);
                let mut next = vec![];
                for a in &acc {
                    for v in &vs {
                        let mut a2 = a.clone();
                        a2.push(v.clone());
                        next.push(a2);
                    }
                }
                acc = next;
            }
            acc.into_iter().map(Val::Tuple).collect()
        }
        Ty::Array(t) => {
            let vs = all_values(t, max_array_len);
            let mut out = vec![vec![]];
            let mut layer: Vec<Vec<Val>> = vec![vec![]];
            for _ in 0..max_array_len {
                let mut next = vec![];
                for a in &layer {
                    for v in &vs {
                        let mut a2 = a.clone();
                        a2.push(v.clone());
                        next.push(a2);
                    }
                }
                out.extend(next.iter().cloned());
                layer = next;
            }
            out.into_iter().map(Val::Array).collect()
        }
        _ => panic!("all_values on an infinite type"),
    }
}
