//! E3: hostile source text. A corpus of real Abra programs (from /repo's tests, examples, modules and
//! book, extracted by tools/mkcorpus.py into /verif/corpus) plus mutation strategies.

use crate::harness::{pick_idx, root};
use proptest::prelude::*;
use serde::{Deserialize, Serialize};
use std::sync::OnceLock;

pub fn corpus() -> &'static Vec<(String, String)> {
    static C: OnceLock<Vec<(String, String)>> = OnceLock::new();
    C.get_or_init(|| {
        let mut v = vec![];
        if let Ok(rd) = std::fs::read_dir(root().join("corpus")) {
            for e in rd.flatten() {
                let p = e.path();
                if p.extension().map(|x| x == "abra").unwrap_or(false) {
                    if let Ok(s) = std::fs::read_to_string(&p) {
                        v.push((p.file_name().unwrap().to_string_lossy().to_string(), s));
                    }
                }
            }
        }
        v.sort();
        if v.is_empty() {
            v.push(("builtin".into(), "let x = 1\nprintln(x + 2)\n".into()));
        }
        v
    })
}

pub const DICT: [&str; 70] = [
    "let", "var", "type", "interface", "implement", "extend", "fn", "if", "else", "match", "while", "for", "in", "break", "continue", "return", "use", "except", "as", "task", "nil", "true", "false", "and", "or",
    "not", "->", "..", "==", "!=", "<=", ">=", "+=", "-=", "*=", "/=", "%=", "(", ")", "{", "}", "[", "]", ",", ";", ":", ".", "|", "_", "#host", "#foreign", "\"", "'", "\"\"\"", "//", "/*", "*/", "=", "+", "-", "*",
    "/", "%", "^", "<", ">", "!", "?", "self", "outputtype",
];

pub const CHARS: [&str; 40] = [
    "(", ")", "{", "}", "[", "]", "\"", "'", "\\", "\n", "\t", "\r", "\u{0}", " ", ",", ";", ".", ":", "#", "@", "$", "`", "~", "|", "&", "é", "λ", "日", "😀", "\u{301}", "\u{200b}", "\u{feff}", "0", "9", "_", "a", "Z", "-", "=", "\u{7f}",
];

#[derive(Clone, Debug, Serialize, Deserialize)]
pub enum Mut {
    /// keep the first `frac/65536` of the chars
    Prefix(u16),
    /// drop the first part
    Suffix(u16),
    InsertChar(u16, u16),
    DeleteChars(u16, u8),
    ReplaceChar(u16, u16),
    TokenDelete(u16),
    TokenDup(u16),
    TokenSwap(u16, u16),
    TokenReplace(u16, u16),
    InsertToken(u16, u16),
    LineSwap(u16, u16),
    LineDelete(u16),
    /// splice the tail of another corpus file at a position
    Splice(u16, u16, u16),
    /// append grammar-shaped garbage: kind, size
    Garbage(u8, u8),
}

/// crude lexer: identifiers/numbers, string-ish runs, single punctuation, whitespace runs
pub fn tokens(s: &str) -> Vec<String> {
    let mut out = vec![];
    let mut cur = String::new();
    let mut kind = 0u8; // 0 none, 1 word, 2 space
    for c in s.chars() {
        let k = if c.is_alphanumeric() || c == '_' {
            1
        } else if c.is_whitespace() {
            2
        } else {
            3
        };
        if k == 3 {
            if !cur.is_empty() {
                out.push(std::mem::take(&mut cur));
            }
            out.push(c.to_string());
            kind = 0;
        } else {
            if k != kind && !cur.is_empty() {
                out.push(std::mem::take(&mut cur));
            }
            cur.push(c);
            kind = k;
        }
    }
    if !cur.is_empty() {
        out.push(cur);
    }
    out
}

fn garbage(kind: u8, size: u8) -> String {
    let n = size as usize;
    match kind % 8 {
        0 => format!("\nlet g = {}1{}\n", "(".repeat(n), ")".repeat(n)),
        1 => format!("\nlet g = {}\n", "(".repeat(n)),
        2 => format!("\n{}\n", "}".repeat(n % 20)),
        3 => format!("\nlet g = 1 {}\n", ["+", "-", "*", "..", "==", "and", "not", "^"].iter().cycle().take(n % 40).cloned().collect::<Vec<_>>().join(" ")),
        4 => format!("\nlet g = {}x{}\n", "[".repeat(n), "]".repeat(n)),
        5 => format!("\nmatch x {{ {} }}\n", (0..n % 30).map(|i| format!(".V{i}(_) -> ")).collect::<String>()),
        6 => format!("\nfn f{}\n", "(a: array<".repeat(n % 40)),
        _ => format!("\nlet s = \"{}\n", "\\".repeat(n % 9)),
    }
}

pub fn apply(base: &str, muts: &[Mut]) -> String {
    let mut s = base.to_string();
    for m in muts {
        let chars: Vec<char> = s.chars().collect();
        match m {
            Mut::Prefix(f) => s = chars[..pick_idx(*f, chars.len() + 1)].iter().collect(),
            Mut::Suffix(f) => s = chars[pick_idx(*f, chars.len() + 1)..].iter().collect(),
            Mut::InsertChar(p, c) => {
                let i = pick_idx(*p, chars.len() + 1);
                let mut t: String = chars[..i].iter().collect();
                t.push_str(CHARS[pick_idx(*c, CHARS.len())]);
                t.extend(chars[i..].iter());
                s = t;
            }
            Mut::DeleteChars(p, n) => {
                if !chars.is_empty() {
                    let i = pick_idx(*p, chars.len());
                    let j = (i + 1 + (*n as usize % 12)).min(chars.len());
                    let mut t: String = chars[..i].iter().collect();
                    t.extend(chars[j..].iter());
                    s = t;
                }
            }
            Mut::ReplaceChar(p, c) => {
                if !chars.is_empty() {
                    let i = pick_idx(*p, chars.len());
                    let mut t: String = chars[..i].iter().collect();
                    t.push_str(CHARS[pick_idx(*c, CHARS.len())]);
                    t.extend(chars[i + 1..].iter());
                    s = t;
                }
            }
            Mut::TokenDelete(p) | Mut::TokenDup(p) => {
                let mut toks = tokens(&s);
                if !toks.is_empty() {
                    let i = pick_idx(*p, toks.len());
                    if matches!(m, Mut::TokenDelete(_)) {
                        toks.remove(i);
                    } else {
                        let t = toks[i].clone();
                        toks.insert(i, t);
                    }
                    s = toks.concat();
                }
            }
            Mut::TokenSwap(p, q) => {
                let mut toks = tokens(&s);
                if toks.len() >= 2 {
                    let (i, j) = (pick_idx(*p, toks.len()), pick_idx(*q, toks.len()));
                    toks.swap(i, j);
                    s = toks.concat();
                }
            }
            Mut::TokenReplace(p, d) => {
                let mut toks = tokens(&s);
                if !toks.is_empty() {
                    let i = pick_idx(*p, toks.len());
                    toks[i] = DICT[pick_idx(*d, DICT.len())].to_string();
                    s = toks.concat();
                }
            }
            Mut::InsertToken(p, d) => {
                let mut toks = tokens(&s);
                let i = pick_idx(*p, toks.len() + 1);
                toks.insert(i, format!(" {} ", DICT[pick_idx(*d, DICT.len())]));
                s = toks.concat();
            }
            Mut::LineSwap(p, q) => {
                let mut lines: Vec<&str> = s.split('\n').collect();
                if lines.len() >= 2 {
                    let (i, j) = (pick_idx(*p, lines.len()), pick_idx(*q, lines.len()));
                    lines.swap(i, j);
                    s = lines.join("\n");
                }
            }
            Mut::LineDelete(p) => {
                let mut lines: Vec<&str> = s.split('\n').collect();
                if lines.len() >= 2 {
                    lines.remove(pick_idx(*p, lines.len()));
                    s = lines.join("\n");
                }
            }
            Mut::Splice(other, at, from) => {
                let c = corpus();
                let o: Vec<char> = c[pick_idx(*other, c.len())].1.chars().collect();
                let i = pick_idx(*at, chars.len() + 1);
                let j = pick_idx(*from, o.len() + 1);
                let mut t: String = chars[..i].iter().collect();
                t.extend(o[j..].iter());
                s = t;
            }
            Mut::Garbage(k, n) => s.push_str(&garbage(*k, *n)),
        }
        if s.len() > 20_000 {
            let mut cut = 20_000;
            while !s.is_char_boundary(cut) {
                cut -= 1;
            }
            s.truncate(cut);
        }
    }
    s
}

pub fn mut_strategy() -> BoxedStrategy<Mut> {
    prop_oneof![
        3 => any::<u16>().prop_map(Mut::Prefix),
        1 => any::<u16>().prop_map(Mut::Suffix),
        4 => (any::<u16>(), any::<u16>()).prop_map(|(a, b)| Mut::InsertChar(a, b)),
        3 => (any::<u16>(), any::<u8>()).prop_map(|(a, b)| Mut::DeleteChars(a, b)),
        3 => (any::<u16>(), any::<u16>()).prop_map(|(a, b)| Mut::ReplaceChar(a, b)),
        3 => any::<u16>().prop_map(Mut::TokenDelete),
        2 => any::<u16>().prop_map(Mut::TokenDup),
        2 => (any::<u16>(), any::<u16>()).prop_map(|(a, b)| Mut::TokenSwap(a, b)),
        4 => (any::<u16>(), any::<u16>()).prop_map(|(a, b)| Mut::TokenReplace(a, b)),
        3 => (any::<u16>(), any::<u16>()).prop_map(|(a, b)| Mut::InsertToken(a, b)),
        1 => (any::<u16>(), any::<u16>()).prop_map(|(a, b)| Mut::LineSwap(a, b)),
        1 => any::<u16>().prop_map(Mut::LineDelete),
        1 => (any::<u16>(), any::<u16>(), any::<u16>()).prop_map(|(a, b, c)| Mut::Splice(a, b, c)),
        1 => (any::<u8>(), any::<u8>()).prop_map(|(a, b)| Mut::Garbage(a, b)),
    ]
    .boxed()
}

/// a mutated text with its provenance (for the evidence histogram)
#[derive(Clone, Debug, Serialize, Deserialize)]
pub struct TextCase {
    pub origin: String,
    pub text: String,
    pub n_muts: usize,
}

/// mutated corpus text; `max_len` bounds the base file size (chars)
pub fn text_strategy(max_base_len: usize, max_muts: usize) -> BoxedStrategy<TextCase> {
    (any::<u16>(), proptest::collection::vec(mut_strategy(), 0..=max_muts))
        .prop_map(move |(b, muts)| {
            let c = corpus();
            let small: Vec<&(String, String)> = c.iter().filter(|x| x.1.chars().count() <= max_base_len).collect();
            let (name, base) = if small.is_empty() { &c[0] } else { small[pick_idx(b, small.len())] };
            TextCase { origin: name.clone(), text: apply(base, &muts), n_muts: muts.len() }
        })
        .boxed()
}

// ---------------------------------------------------------------------------------------------
// small grammars for front-end corners the corpus does not reach

struct TapeRd<'a> {
    d: &'a [u16],
    i: usize,
}

impl TapeRd<'_> {
    fn n(&mut self, k: usize) -> usize {
        let v = self.d.get(self.i).copied().unwrap_or(0);
        self.i += 1;
        pick_idx(v, k)
    }
}

fn selfref_expr(t: &mut TapeRd, depth: usize, names: &[&str]) -> String {
    let leaf = depth == 0 || t.i >= t.d.len();
    let k = if leaf { t.n(4) } else { 4 + t.n(16) };
    let mut sub = |t: &mut TapeRd| selfref_expr(t, depth.saturating_sub(1), names);
    match k {
        0 => names[0].to_string(),
        1 => names[t.n(names.len())].to_string(),
        2 => "1".to_string(),
        3 => "\"s\"".to_string(),
        4 => format!("({}, {})", sub(t), sub(t)),
        5 => format!("[{}]", sub(t)),
        6 => format!("{}({})", names[0], sub(t)),
        7 => format!("({})({})", sub(t), sub(t)),
        8 => format!("(y -> {})", sub(t)),
        9 => format!("{} + {}", sub(t), sub(t)),
        10 => format!("{} - {}", sub(t), names[0]),
        11 => format!("option.some({})", sub(t)),
        12 => format!("{{\n    let y = {}\n    {}\n  }}", sub(t), sub(t)),
        13 => format!("if true {{ {} }} else {{ {} }}", sub(t), sub(t)),
        14 => format!("match {} {{\n    _ -> {}\n  }}", sub(t), sub(t)),
        15 => format!("({}, {}, {})", sub(t), names[0], sub(t)),
        16 => format!("{}.0", sub(t)),
        17 => format!("{}[0]", sub(t)),
        18 => format!("{} == {}", sub(t), sub(t)),
        _ => format!("{} .. {}", sub(t), sub(t)),
    }
}

/// Functions (also mutually recursive, also unannotated) whose bodies mention themselves inside tuples,
/// arrays, lambdas, options and calls: self-referential types, occurs checks, odd recursion.
pub fn selfref_text(tape: &[u16]) -> String {
    let mut t = TapeRd { d: tape, i: 0 };
    let nf = 1 + t.n(2);
    let mut out = String::new();
    for i in 0..nf {
        let (me, other) = if i == 0 { ("f", "g") } else { ("g", "f") };
        let names: Vec<&str> = if nf == 2 { vec![me, "x", other] } else { vec![me, "x"] };
        let params = ["", "x", "x, z", "x: int"][t.n(4)];
        let names: Vec<&str> = if params.is_empty() { names.into_iter().filter(|n| *n != "x").collect() } else { names };
        let depth = 1 + t.n(4);
        let body = selfref_expr(&mut t, depth, &names);
        out.push_str(&format!("fn {me}({params}) {{\n  {body}\n}}\n"));
    }
    out.push_str(["", "println(1)\n", "let r = f\n", "f\n"][t.n(4)]);
    out
}

/// Triple-quoted strings with every mix of indentation (spaces, tabs, none), blank and short lines,
/// inline or own-line closers, escapes and non-ASCII content.
pub fn mlstring_text(tape: &[u16]) -> String {
    let mut t = TapeRd { d: tape, i: 0 };
    let mut out = String::new();
    let outer = ["", "  ", "\t", "    "][t.n(4)];
    let in_fn = t.n(3) == 0;
    if in_fn {
        out.push_str("fn s() -> string {\n");
    }
    out.push_str(&format!("{outer}let s = \"\"\"{}", ["", "x", " ", "\t"][t.n(4)]));
    let lines = t.n(6);
    for _ in 0..lines {
        out.push('\n');
        let ind = ["", " ", "  ", "    ", "\t", "\t\t", " \t", "\t ", "        "][t.n(9)];
        let body = ["", "a", "ab", "abc def", "\\n", "\\t", "\\x41", "\\q", "é", "\"", "\"\"", "日本", " ", "\t", "x\t", "{}", "//c", "/*"][t.n(18)];
        out.push_str(ind);
        out.push_str(body);
    }
    match t.n(5) {
        0 => out.push_str("\"\"\""),
        1 => out.push_str("\n\"\"\""),
        2 => out.push_str(&format!("\n{outer}\"\"\"")),
        3 => out.push_str("\n\t\"\"\"  "),
        _ => {}
    }
    out.push('\n');
    if in_fn {
        out.push_str("  s\n}\nprintln(s())\n");
    } else {
        out.push_str("println(s)\n");
    }
    out
}
