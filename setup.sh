#!/bin/bash
# Build the verification engine from files on disk only (offline).
set -e
cd "$(dirname "$0")"
export CARGO_NET_OFFLINE=true
( cd engine && cargo build --offline --profile verif )
echo "setup ok"
