#!/bin/bash
# Build the verification engine from files on disk only (offline).
set -e
cd "$(dirname "$0")"
export CARGO_NET_OFFLINE=true
( cd engine && cargo build --offline --profile verif )
# C36: warm the embedder template (debug build of abra_core and its dependencies) so that a batch
# only compiles the generated bindings and glue
( cd engine/hostgen && CARGO_TARGET_DIR="$PWD/target" cargo build --offline )
# sanitizer worker for C37/C38 (nightly + ASan, or the stable fallback)
. tools/build_utilsan.sh
build_utilsan
echo "utilsan: $UTILSAN_BUILD ($UTILSAN_BIN)"
echo "setup ok"
