#!/bin/bash
# tools/seed_eval.sh <ID-k> <tier> <checks...>: run the checks against seeded/<ID-k>/patch.diff (scratch copy, private
# mount namespace) and record one line per check in seeded/<ID-k>/checks_<tier>.txt
set -u
N="$1"; TIER="$2"; shift 2
OUT=/verif/seeded/$N/checks_$TIER.txt
/verif/tools/mutant_run.sh "$N" /verif/seeded/$N/patch.diff "$TIER" "$@" | tee /tmp/mutres-$N.txt
touch "$OUT"; for c in "$@"; do sed -i "/^MUTANT $N $c /d" "$OUT"; done
grep '^MUTANT' /tmp/mutres-$N.txt | sed 's#replay=/verif/replays/#replay=replays/#' >> "$OUT"
sort -u -o "$OUT" "$OUT"; rm -f /tmp/mutres-$N.txt
# keep the first violation's replay summary as evidence of what was found
for c in "$@"; do
  f=/tmp/mutlog-$N/$c.log
  [ -f "$f" ] && grep -m3 -E '^(VIOLATION|  )' "$f" > /verif/seeded/$N/found_$c.txt 2>/dev/null
  [ -s /verif/seeded/$N/found_$c.txt ] || rm -f /verif/seeded/$N/found_$c.txt
done
rm -rf /tmp/mutlog-$N
