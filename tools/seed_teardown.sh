#!/bin/bash
set -u
for ID in "$@"; do git -C /repo worktree remove --force /tmp/seed-$ID; rm -rf /tmp/seed-$ID; done
git -C /repo worktree prune
