#!/usr/bin/env python3
"""Regenerates /verif/MANIFEST.json from tools/checks.json (one entry per claimed property)."""
import json, os, subprocess
root = os.path.dirname(os.path.dirname(os.path.abspath(__file__)))
props = [json.loads(l) for l in open(os.path.join(root, "properties.jsonl"))]
table = json.load(open(os.path.join(root, "tools", "checks.json")))
hook_commits = subprocess.run(["git", "-C", "/repo", "log", "--format=%h %s", "--grep=^verif hooks:"], capture_output=True, text=True).stdout.strip().splitlines()
checks, na = [], []
for p in props:
    pid = p["id"]
    t = table.get(pid)
    if not t or t.get("status") != "claimed":
        na.append({"property_id": pid, "reason": (t or {}).get("reason", "check not built yet in this engine (work in progress); the design in DESIGN.md section 4 applies")})
        continue
    checks.append({
        "property_id": pid,
        "quick_cmd": f"./check {pid} --tier quick",
        "thorough_cmd": f"./check {pid} --tier thorough",
        "evidence_file": f"/verif/evidence/{pid}.json",
        "replay_cmd_template": f"./check {pid} --replay {{path}}",
        "engine": t.get("engine", "verif"),
        "level_claimed": {"category": t.get("category", "exploration"), "text": t["text"], "design_ref": t.get("design_ref", f"DESIGN.md section 4, {pid}")},
        "level_note": t["note"],
        "technique": t["technique"],
    })
m = {
    "version": 1,
    "setup_cmd": "./setup.sh",
    "hooks": {
        "guard": "cargo feature `verif` on abra_core (cfg(feature = \"verif\"))",
        "enable": "engine/verif depends on abra_core = { path = \"/repo/abra_core\", features = [\"verif\"] }; every ./check invocation runs `cargo build --offline --profile verif` in /verif/engine first, so it rebuilds from /repo's working tree",
        "baseline_off_cmd": "cd /repo && cargo nextest run --workspace --no-fail-fast --test-threads 8 --offline",
        "source_commits": [c.split()[0] for c in hook_commits],
        "add_only": True,
    },
    "engines": [
        {"name": "verif", "path": "/verif/engine/verif", "serves_properties": [c["property_id"] for c in checks if c["engine"] == "verif"],
         "kind_free_text": "Rust coordinator + 12 worker subprocesses; proptest TestRunner (fixed ChaCha seed from VERIF_SEED) generating programs / inputs / histories / schedules, explicit oracles, shrinking, replay files"},
    ] + ([
        {"name": "utilsan", "path": "/verif/engine/utilsan", "serves_properties": [pid for pid, t in table.items() if t.get("aux_engine") == "utilsan" and t.get("status") == "claimed"],
         "kind_free_text": "auxiliary worker binary driven by the verif coordinator: executes IdSet / Arena operation sequences against /repo/utils and an in-process model; built by ./check (tools/build_utilsan.sh) with nightly -Zsanitizer=address, stable build without ASan as recorded fallback"},
    ] if any(t.get("aux_engine") == "utilsan" for t in table.values()) else []),
    "checks": checks,
    "not_applicable": na,
    "notes": "All checks: exit 0 = held on everything explored (KNOWN-FINDING lines allowed), 1 = VIOLATION line(s), 2 = harness/build problem. known_findings.json lists open findings and fixed: entries. See DESIGN.md.",
}
json.dump(m, open(os.path.join(root, "MANIFEST.json"), "w"), indent=1)
print(f"claimed {len(checks)} / not_applicable {len(na)}")
