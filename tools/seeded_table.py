#!/usr/bin/env python3
"""Markdown table of the seeded changes under /verif/seeded: what each does, what it needs, which checks
caught it in the quick tier (from seeded/<id>/checks_*.txt)."""
import json, glob, os, re
rows = []
for d in sorted(glob.glob('/verif/seeded/C*-*')):
    name = os.path.basename(d)
    try:
        m = json.load(open(d + '/meta.json'))
    except Exception:
        m = {}
    caught, missed = [], []
    for tier in ('quick', 'thorough'):
        f = f'{d}/checks_{tier}.txt'
        if not os.path.exists(f):
            continue
        for l in open(f):
            mm = re.match(r'MUTANT \S+ (C\d+) rc=(\d+) (\d+) violations; (.*)', l)
            if not mm:
                continue
            c, rc, n, first = mm.groups()
            tag = c + ('' if tier == 'quick' else '(thorough)')
            if rc == '1':
                how = 'regression' if '/fixed-' in first or re.search(r'replays/C\d+/[a-z][^/]*\.json', first) and '/found/' not in first else 'search'
                caught.append(f'{tag}:{how}')
            elif rc == '0':
                missed.append(tag)
            else:
                missed.append(tag + '(rc=' + rc + ')')
    summ = (m.get('summary') or m.get('mechanism') or '').replace('|', '\\|').replace('\n', ' ')
    if len(summ) > 170:
        summ = summ[:167] + '...'
    conf = m.get('confirmed', {})
    rows.append((name, summ, ', '.join(caught) or '—', ', '.join(missed) or '—', conf.get('demo_differs', '?')))
print('| change | what it does | caught by (quick tier) | not caught by | demo differs |')
print('|--------|--------------|------------------------|---------------|--------------|')
for r in rows:
    print('| ' + ' | '.join(r) + ' |')
own = {}
for r in rows:
    prop = r[0].split('-')[0]
    own.setdefault(prop, [0, 0])
    own[prop][1] += 1
    if any(c.split(':')[0].replace('(thorough)', '') == prop for c in r[2].split(', ')):
        own[prop][0] += 1
print()
print('caught by the check of the property it was written against: ' + ', '.join(f'{p} {a}/{b}' for p, (a, b) in sorted(own.items())))
tot = len(rows); anyc = sum(1 for r in rows if r[2] != '—')
print(f'\n{anyc} of {tot} changes are caught by at least one check.')
