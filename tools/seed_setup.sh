#!/bin/bash
# tools/seed_setup.sh <ID>: scratch worktree /tmp/seed-<ID> of /repo (detached HEAD) with a warm target dir
# and the property's text in PROPERTY.json. Remove with tools/seed_teardown.sh <ID>.
set -eu
ID="$1"; W=/tmp/seed-$ID
git -C /repo worktree add --detach "$W" HEAD -q
cp -a /repo/target "$W/target"
python3 - "$ID" "$W" <<'PY'
import json,sys
for l in open('/verif/properties.jsonl'):
    p=json.loads(l)
    if p['id']==sys.argv[1]:
        json.dump(p,open(sys.argv[2]+'/PROPERTY.json','w'),indent=1)
PY
mkdir -p "$W/OUT"
echo "$W ready"
