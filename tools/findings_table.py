#!/usr/bin/env python3
"""Prints the markdown table of repaired defects (grouped by fix commit) from known_findings.json."""
import json, re, collections
k = json.load(open('/verif/known_findings.json'))
by = collections.OrderedDict()
for l in k['fixed']:
    m = re.match(r'fixed: property=(C\d+) (\S+) (.*)', l)
    prop, commit, what = m.groups()
    e = by.setdefault(commit, {'props': [], 'what': what})
    if prop not in e['props']:
        e['props'].append(prop)
    if '(same root cause' not in what and 'the same checker panic' not in what and len(what) > len(e['what']):
        pass
print('| # | fix commit | properties | what failed |')
print('|---|------------|------------|-------------|')
for i, (c, e) in enumerate(by.items(), 1):
    w = e['what'].replace('|', '\\|')
    if len(w) > 230:
        w = w[:227] + '...'
    print(f"| {i} | `{c}` | {', '.join(e['props'])} | {w} |")
