#!/bin/bash
# run every claimed check's quick tier; print one line per check
cd "$(dirname "$0")/.."
SEED="${VERIF_SEED:-1}"
for id in $(python3 -c "import json;print(' '.join(c['property_id'] for c in json.load(open('MANIFEST.json'))['checks']))"); do
  out=$(VERIF_SEED=$SEED ./check $id --tier ${1:-quick} 2>&1); rc=$?
  echo "$id rc=$rc $(echo "$out" | grep -E '^SUMMARY' | sed 's/SUMMARY property=[A-Z0-9]* //') $(echo "$out" | grep -c '^VIOLATION') violations $(echo "$out" | grep -c '^KNOWN-FINDING') known"
done
