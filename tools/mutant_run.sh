#!/bin/bash
# tools/mutant_run.sh <name> <patch.diff> <tier> <ID>...
# Runs the named checks against a scratch copy of /repo with <patch.diff> applied, without touching
# /repo or /verif: both are copied under /tmp/mut-<name> and bind-mounted over the real paths inside a
# private mount namespace. Prints one line per check; full logs in /tmp/mutlog-<name>/<ID>.log.
set -u
NAME="$1"; PATCH="$(readlink -f "$2")"; TIER="$3"; shift 3
W=/tmp/mut-$NAME; L=/tmp/mutlog-$NAME
rm -rf "$W" "$L"; mkdir -p "$W" "$L"
rsync -a --exclude target /repo/ "$W/repo/"
rsync -a --exclude evidence --exclude "engine/fuzz/target-*" "${VERIF_SRC:-/verif}/" "$W/verif/"; mkdir -p "$W/verif/evidence"
if ! git -C "$W/repo" apply "$PATCH"; then echo "PATCH-FAILED $NAME"; rm -rf "$W"; exit 2; fi
unshare -m bash -c "
  mount --bind $W/repo /repo && mount --bind $W/verif /verif && cd /verif || exit 2
  for c in $*; do
    ./check \$c --tier $TIER > $L/\$c.log 2>&1; rc=\$?
    echo \"MUTANT $NAME \$c rc=\$rc \$(grep -c '^VIOLATION' $L/\$c.log) violations; \$(grep -m1 '^VIOLATION' $L/\$c.log | cut -c1-160)\"
  done
"
rm -rf "$W"
