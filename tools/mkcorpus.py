#!/usr/bin/env python3
"""Extracts the seed corpus of Abra programs from /repo (tests, examples, modules) into /verif/corpus."""
import re, os, glob, hashlib
root = os.path.dirname(os.path.dirname(os.path.abspath(__file__)))
out = os.path.join(root, "corpus")
os.makedirs(out, exist_ok=True)
seen = set()
n = 0
def add(text, tag):
    global n
    text = text.strip("\n") + "\n"
    if len(text) < 3 or len(text) > 6000: return
    h = hashlib.sha1(text.encode()).hexdigest()[:12]
    if h in seen: return
    seen.add(h)
    open(os.path.join(out, f"{tag}-{h}.abra"), "w").write(text)
    n += 1
for f in glob.glob("/repo/abra_core/tests/integration/*.rs"):
    src = open(f).read()
    for m in re.finditer(r'r#"(.*?)"#', src, re.S):
        add(m.group(1), "test")
for pat in ["/repo/examples/*.abra", "/repo/module_tests/*.abra", "/repo/modules/*.abra", "/repo/modules/core/*.abra", "/repo/e2e_tests/*.abra", "/repo/e2e_tests/test_host_funcs/abra_src/*.abra"]:
    for f in glob.glob(pat):
        try: add(open(f).read(), "file")
        except Exception: pass
for f in glob.glob("/repo/book/src/language_reference/*.md"):
    for m in re.finditer(r"```\n(.*?)```", open(f).read(), re.S):
        add(m.group(1), "book")
print("corpus files:", n)
