#!/usr/bin/env python3
"""mkreplay.py <PROP> <name> <end> <abra file> [expected stdout file|-] : writes replays/<PROP>/<name>.json for the `program` sub-check."""
import json, sys, os
prop, name, end, src = sys.argv[1:5]
out = None
if len(sys.argv) > 5 and sys.argv[5] != '-':
    out = open(sys.argv[5]).read()
root = os.path.dirname(os.path.dirname(os.path.abspath(__file__)))
d = {"property": prop, "sub": "program", "note": " ".join(sys.argv[6:]), "case": {"files": [{"path": "main.abra", "text": open(src).read()}], "main": "main.abra", "stdout": out, "end": end, "budgets": [1000, 1, 3]}}
os.makedirs(os.path.join(root, "replays", prop), exist_ok=True)
json.dump(d, open(os.path.join(root, "replays", prop, name + ".json"), "w"), indent=1)
print("wrote", name)
