#!/usr/bin/env python3
"""Resolve the usual conflicts when merging an agent branch: known_findings.json, tools/checks.json (unions),
checks/mod.rs (ours + their registry ids)."""
import json, subprocess, re, sys
def side(n, path):
    return subprocess.run(['git', 'show', f':{n}:' + path], capture_output=True, text=True).stdout
def conflicted():
    return subprocess.run(['git', 'diff', '--name-only', '--diff-filter=U'], capture_output=True, text=True).stdout.split()
c = conflicted()
if 'known_findings.json' in c:
    O, T = json.loads(side(2, 'known_findings.json')), json.loads(side(3, 'known_findings.json'))
    for x in T['fixed']:
        if x not in O['fixed']: O['fixed'].append(x)
    for x in T['findings']:
        if x['key'] not in [f['key'] for f in O['findings']]: O['findings'].append(x)
    json.dump(O, open('known_findings.json', 'w'), indent=2)
if 'tools/checks.json' in c:
    O, T = json.loads(side(2, 'tools/checks.json')), json.loads(side(3, 'tools/checks.json'))
    for k, v in T.items():
        if k not in O: O[k] = v
    json.dump(O, open('tools/checks.json', 'w'), indent=1)
p = 'engine/verif/src/checks/mod.rs'
if p in c:
    ours, theirs = side(2, p), side(3, p)
    ids_theirs = re.findall(r'"(C\d+)" => (c\d+)', theirs)
    ids_ours = re.findall(r'"(C\d+)" => (c\d+)', ours)
    allids = sorted(set(ids_ours) | set(ids_theirs))
    body = "".join(f'    "{i}" => {m},\n' for i, m in allids)
    ours = re.sub(r'registry! \{\n.*?\n\}', 'registry! {\n' + body + '}', ours, flags=re.S)
    for m in re.findall(r'^pub mod (\w+);', theirs, re.M):
        if f'pub mod {m};' not in ours and not re.match(r'c\d+$', m):
            ours = ours.replace('/// Worker-side execution', f'pub mod {m};\n\n/// Worker-side execution', 1)
    open(p, 'w').write(ours)
print("resolved", c)
