#!/bin/bash
# tools/seed_confirm.sh <ID> <k> [checks...]
# Confirms one seeded change produced by a sub-agent in /tmp/seedout/<ID>/<k>, in a scratch copy of /repo:
#   1. the demonstration (demo.abra) gives expected.txt on the unchanged tree,
#   2. the patch applies and builds, the demonstration then gives something else,
#   3. the pinned test suite passes with the patch applied.
# On success the change is stored as /verif/seeded/<ID>-<k>/ with a `confirmed` record in meta.json.
set -u
ID="$1"; K="$2"
SRC=/tmp/seedout/$ID/$K; DST=/verif/seeded/$ID-$K; W=/tmp/conf-$ID-$K
[ -f "$SRC/patch.diff" ] || { echo "no patch in $SRC"; exit 2; }
rm -rf "$W"; mkdir -p "$W"
rsync -a --exclude target /repo/ "$W/repo/"
cp -a /repo/target "$W/repo/target"
cd "$W/repo"
run_demo() { # prints combined output of the demo
  if [ -f "$SRC/demo.abra" ]; then
    ( cd "$SRC" && timeout 120 "$W/repo/target/debug/abra" --standard-modules "$W/repo/modules" demo.abra 2>&1 )
    echo "exit=$?"
  else
    echo "(no demo.abra: demonstrated otherwise, see meta.json)"
  fi
}
cargo build --offline -q -p abra_cli 2>/dev/null
run_demo > "$W/base.txt"
if ! git apply "$SRC/patch.diff"; then echo "CONFIRM $ID-$K patch does not apply"; rm -rf "$W"; exit 1; fi
if ! cargo build --offline -q -p abra_cli 2>"$W/build.log"; then echo "CONFIRM $ID-$K does not build"; tail -5 "$W/build.log"; rm -rf "$W"; exit 1; fi
run_demo > "$W/mut.txt"
cargo nextest run --workspace --no-fail-fast --test-threads 6 --offline > "$W/tests.log" 2>&1
SUMMARY="$(grep -E '^ +Summary' "$W/tests.log" | tail -1 | sed 's/^ *//')"
DIFFERS=no; cmp -s "$W/base.txt" "$W/mut.txt" || DIFFERS=yes
echo "CONFIRM $ID-$K demo_differs=$DIFFERS tests: $SUMMARY"
mkdir -p "$DST"
cp -a "$SRC"/. "$DST"/
cp "$W/base.txt" "$DST/observed_unchanged.txt"; cp "$W/mut.txt" "$DST/observed_changed.txt"
python3 - "$DST/meta.json" "$DIFFERS" "$SUMMARY" <<'PY'
import json,sys
p,d,s=sys.argv[1:4]
try: m=json.load(open(p))
except Exception as e: m={"meta_parse_error":str(e),"raw":open(p).read()}
m["confirmed"]={"demo_differs":d,"tests":s,"how":"tools/seed_confirm.sh: scratch copy of /repo, demo run before/after the patch, cargo nextest run --workspace with the patch applied"}
json.dump(m,open(p,"w"),indent=1)
PY
rm -rf "$W"
