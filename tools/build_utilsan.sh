#!/bin/bash
# Source this file, then call `build_utilsan`. Builds engine/utilsan (worker for C37/C38) from
# /repo/utils' working tree: nightly + AddressSanitizer if possible, otherwise stable without it.
# Sets UTILSAN_BIN (absolute path), UTILSAN_BUILD (asan|plain), UTILSAN_BUILD_NOTE. Returns 1 if
# neither build works. Must be called with the verification root as the current directory.
build_utilsan() {
  local root log
  root="$(pwd)"
  log="$(mktemp)"
  export CARGO_NET_OFFLINE=true
  if ( cd engine/utilsan && flock ../utilsan.lock env RUSTFLAGS="-Zsanitizer=address --cfg utilsan_asan" \
         cargo +nightly build --offline --release --target x86_64-unknown-linux-gnu -q ) >"$log" 2>&1; then
    export UTILSAN_BIN="$root/engine/utilsan/target/x86_64-unknown-linux-gnu/release/utilsan"
    export UTILSAN_BUILD=asan
    export UTILSAN_BUILD_NOTE="nightly, -Zsanitizer=address, release profile with debug assertions and overflow checks"
    rm -f "$log"; return 0
  fi
  local why
  why="$(grep -m1 -E '^error' "$log" | cut -c1-200)"
  echo "HARNESS-NOTE utilsan: nightly ASan build failed (${why:-no error line}); falling back to the stable build without ASan" >&2
  if ( cd engine/utilsan && flock ../utilsan.lock cargo build --offline --release -q ) >"$log" 2>&1; then
    export UTILSAN_BIN="$root/engine/utilsan/target/release/utilsan"
    export UTILSAN_BUILD=plain
    export UTILSAN_BUILD_NOTE="FALLBACK stable build WITHOUT AddressSanitizer (nightly ASan build failed: ${why:-unknown}); only the in-worker model, alignment, overlap and pattern checks apply"
    rm -f "$log"; return 0
  fi
  echo "HARNESS-ERROR utilsan build failed" >&2; tail -40 "$log" >&2; rm -f "$log"
  return 1
}
