#!/usr/bin/env python3
"""Regenerates the generated tables inside DESIGN.md (seeded-change results)."""
import subprocess
p = '/verif/DESIGN.md'
s = open(p).read()
a = s.index('<!-- SEEDED-TABLE-BEGIN -->') + len('<!-- SEEDED-TABLE-BEGIN -->')
b = s.index('<!-- SEEDED-TABLE-END -->')
t = subprocess.run(['python3', '/verif/tools/seeded_table.py'], capture_output=True, text=True).stdout
s = s[:a] + '\n' + t + s[b:]
a = s.index('<!-- FIXED-TABLE-BEGIN -->') + len('<!-- FIXED-TABLE-BEGIN -->')
b = s.index('<!-- FIXED-TABLE-END -->')
t = subprocess.run(['python3', '/verif/tools/findings_table.py'], capture_output=True, text=True).stdout
s = s[:a] + '\n' + t + s[b:]
open(p, 'w').write(s)
